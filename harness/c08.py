"""C08 - port operators denote exactly the Cisco port sets; the three views write back losslessly.

spec: PortSem.tla (PDen / PIv / Canon / codec), PortObj.tla (object + views)
mc:   MC_PortSem (lemmas over every operator x operand tuple over 1..6 and every subset),
      MC_PortObj (all histories of New / SetItems / SetPorts / write-backs)
bind: TLC-generated histories through monotone port maps on ONE live Port object; every operand
      1..65535 for lt/gt/eq/neq (thorough) or a boundary-heavy sample (quick); random tuples; the
      codec functions on random subsets and unordered/overlapping strings. Judge: Trace_C08, PMax=65535.
"""
from __future__ import annotations

import json
import random

from harness import core, lex

PROP = "C08"
TRACE_MODULES = ["Trace_C08"]
NOOBS = dict(op="", items=[], ports=[], sport=[], line="")


def _obs(p):
    return dict(op=p.operator, items=list(p.items), ports=lex.runs(p.ports), sport=lex.sport_runs(p.sport), line=p.line)


def exec_history(job):
    from cisco_acl import Port
    events, obj = [], None
    kw = dict(protocol=job.get("protocol", "tcp"), platform=job.get("platform", "ios"), port_nr=True)
    for i, s in enumerate(job["steps"]):
        e = dict(tid=job["tid"], i=i, act=s["act"], op=s.get("op", ""), xs=s.get("xs", []), exc="", obs=NOOBS, out=[])
        try:
            if s["act"] == "New":
                obj = None
                obj = Port(" ".join([s["op"]] + [str(x) for x in s["xs"]]), **kw)
            elif s["act"] == "SetItems":
                obj.items = list(s["xs"])
            elif s["act"] == "SetLine":
                obj.line = " ".join([s["op"]] + [str(x) for x in s["xs"]])
            elif s["act"] == "WriteBackItems":
                obj.items = obj.items
            elif s["act"] == "WriteBackPorts":
                obj.ports = obj.ports
            elif s["act"] == "WriteBackSport":
                obj.sport = obj.sport
        except Exception as ex:  # noqa
            e["exc"] = core.exc_name(ex)
        if obj is None:
            events.append(e)
            break
        e["obs"] = _obs(obj)
        events.append(e)
    return events


def exec_codec(job):
    from cisco_acl import helpers as h
    e = dict(tid=job["tid"], i=0, act=job["act"], op="", xs=[], exc="", obs=NOOBS, out=[])
    try:
        if job["act"] == "Encode":
            e["xs"] = lex.runs(job["ports"])
            e["out"] = lex.sport_runs(h.ports_to_string(list(job["ports"])))
        else:
            e["xs"] = lex.sport_runs(job["text"])
            e["out"] = lex.runs(h.string_to_ports(job["text"]))
    except Exception as ex:  # noqa
        e["exc"] = core.exc_name(ex)
    return [e]


# ------------------------------------------------------------------ cases

MAPS = [
    [1, 2, 80, 443, 65534, 65535],
    [1, 22, 23, 1024, 1025, 65535],
    [7, 8, 9, 10, 11, 12],
    [2, 100, 1000, 10000, 40000, 65534],
]


def concretise(hists, maps, tid0, platforms):
    jobs, t = [], tid0
    for h in hists:
        for mp_ in maps:
            for plat in platforms:
                steps = []
                skip = False
                for s in h["hist"]:
                    st = dict(act=s["act"])
                    if s["act"] in ("New", "SetItems", "SetLine"):
                        st["op"] = s["op"]
                        st["xs"] = [mp_[x - 1] for x in s["xs"]]
                        if plat != "ios" and len(st["xs"]) > 1 and (s["op"] in ("eq", "neq") or s["act"] == "SetItems"):
                            skip = True  # one operand only on nxos: platform grammar, owned by C01/C02
                    steps.append(st)
                if skip:
                    continue
                jobs.append(dict(tid=t, steps=steps, platform=plat, origin="tlc", map=mp_))
                t += 1
    return jobs


WB = ["WriteBackItems", "WriteBackPorts", "WriteBackSport"]


def operand_sweep(rng, tier, tid0):
    """lt / gt / eq / neq for operands over 1..65535 followed by the three self-assignments."""
    jobs, t = [], tid0
    if tier == "thorough":
        operands = range(1, 65536)
    else:
        operands = sorted(set(list(range(1, 40)) + list(range(65500, 65536)) + [rng.randint(1, 65535) for _ in range(250)]
                              + [255, 256, 257, 1023, 1024, 1025, 32767, 32768, 49151, 49152]))
    for x in operands:
        for op in ("lt", "gt", "eq", "neq"):
            if tier == "thorough" and op == "eq" and x % 16 not in (0, 1, 15) and not (x < 64 or x > 65472):
                continue
            if tier == "thorough" and op == "neq" and x % 64 not in (0, 63) and not (x < 64 or x > 65472):
                continue        # each neq write-back builds and scans 65535-element lists (0.35 s)
            wb = WB[:] if (tier == "quick" and op != "neq") else [WB[(x + k) % 3] for k in range(2)]
            if tier == "quick" and op == "neq" and x % 3 and 40 < x < 65500:
                continue
            steps = [dict(act="New", op=op, xs=[x])] + [dict(act=a) for a in wb]
            jobs.append(dict(tid=t, steps=steps, origin="sweep"))
            t += 1
    return jobs


def random_histories(rng, n, tid0):
    jobs, t = [], tid0
    for _ in range(n):
        op = rng.choice(["eq", "neq", "range", "eq", "range", "lt", "gt", "eq"])

        def operands():
            if op in ("lt", "gt"):
                return [rng.choice([1, 2, 65534, 65535, rng.randint(1, 65535)])]
            if op == "range":
                a = rng.choice([1, 2, 65534, 65535, rng.randint(1, 65535), rng.randint(1, 200)])
                b = rng.choice([a, a + 1, a - 1, 1, 65535, rng.randint(1, 65535), rng.randint(1, 200)])
                b = min(max(b, 1), 65535)
                return [a, b]
            n_ = rng.randint(1, 10)
            pool = [1, 2, 3, 65533, 65534, 65535] + [rng.randint(1, 65535) for _ in range(6)] + list(
                range(rng.randint(4, 200), rng.randint(4, 200) + 5))
            return rng.sample(sorted(set(pool)), min(n_, len(set(pool))))
        steps = [dict(act="New", op=op, xs=operands())]
        for _k in range(rng.randint(1, 5)):
            r = rng.random()
            if r < 0.2:
                steps.append(dict(act="SetItems", xs=operands()))
            elif r < 0.4:       # the line re-assigned: another operator with the same operands where the arity allows, or a new expression
                prev = [x for x in steps if "xs" in x][-1]["xs"]
                same = {1: ["eq", "neq", "lt", "gt"], 2: ["eq", "neq", "range"]}.get(len(prev))
                if len(set(prev)) < len(prev):
                    same = None         # eq / neq operands are listed once each (domain of the model: tuples without repetition)
                if same and rng.random() < 0.6:
                    op = rng.choice(same)
                    steps.append(dict(act="SetLine", op=op, xs=list(prev)))
                else:
                    op = rng.choice(["eq", "neq", "range", "lt", "gt"])
                    steps.append(dict(act="SetLine", op=op, xs=operands()))
            else:
                steps.append(dict(act=rng.choice(WB)))
        jobs.append(dict(tid=t, steps=steps, origin="random", protocol=rng.choice(["tcp", "udp"])))
        t += 1
    return jobs


def codec_jobs(rng, n, tid0):
    jobs, t = [], tid0
    for _ in range(n):
        # subsets whose elements span more than a small hash table, clusters and singletons
        s = set()
        for _k in range(rng.randint(0, 6)):
            a = rng.choice([1, 2, 60, 1000, 65530, rng.randint(1, 65535)])
            s.update(range(a, min(65535, a + rng.choice([0, 0, 1, 2, 5, 11, 40])) + 1))
        ports = list(s)
        rng.shuffle(ports)
        jobs.append(dict(tid=t, act="Encode", ports=ports, origin="codec"))
        t += 1
        parts = []
        for _k in range(rng.randint(0, 6)):
            a = rng.choice([1, 2, 60, 63, 1000, 65530, 65535, rng.randint(1, 65535)])
            b = min(65535, a + rng.choice([0, 1, 2, 10, 11, 40]))
            parts.append(str(a) if a == b and rng.random() < 0.7 else f"{a}-{b}")
        rng.shuffle(parts)
        jobs.append(dict(tid=t, act="Decode", text=",".join(parts), origin="codec"))
        t += 1
    return jobs


def nontrivial(job):
    if "steps" not in job:
        return True
    return any(s["act"].startswith("WriteBack") or s["act"] == "SetItems" for s in job["steps"])


def run(tier, seed):
    rng = random.Random(seed * 104729 + 8)
    mcs = [core.mc("MC_PortSem"), core.mc("MC_PortObj", "MC_PortObj" if tier == "thorough" else "MC_PortObj_d3", workers=8),
           # interval algebra = set algebra at the real port range 1..65535, symbolically (Apalache), with its vacuity guard
           core.apalache("PortLemma", "Lemma"), core.apalache("PortLemma", "Adjacent", expect_violation=True)]
    hists, gen = core.generate("MC_PortObj", "MC_PortObj_gen" if tier == "quick" else "MC_PortObj_gen_thorough")
    rs = random.Random(seed + 2)
    frac = 0.2 if tier == "quick" else 0.03
    hists = [h for h in hists if h["hist"] and rs.random() < frac]
    jobs = concretise(hists, MAPS[:2] if tier == "quick" else MAPS, 1, ["ios"] if tier == "quick" else ["ios", "nxos"])
    jobs += operand_sweep(rng, tier, len(jobs) + 1)
    jobs += random_histories(rng, 1200 if tier == "quick" else 20000, len(jobs) + 1)
    cjobs = codec_jobs(rng, 800 if tier == "quick" else 15000, len(jobs) + 1)

    ev_lists = core.pmap(exec_history, jobs) + core.pmap(exec_codec, cjobs)
    alljobs = jobs + cjobs
    events = [e for evs in ev_lists for e in evs]
    verdicts, vstats = core.validate("Trace_C08", events)

    by_tid = {j["tid"]: (j, evs) for j, evs in zip(alljobs, ev_lists)}
    out = []
    for v in verdicts:
        j, evs = by_tid[v["tid"]]
        op = next((s.get("op") for s in j.get("steps", []) if s["act"] == "New"), j.get("act"))
        out.append(dict(clause=v["clause"], features=dict(origin=j.get("origin"), op=op), case=j, events=evs))
    distinct = {json.dumps(j.get("steps", [j.get("ports"), j.get("text")]), sort_keys=True) for j in alljobs if nontrivial(j)}
    cov = dict(
        states=sum(m.get("states", 0) for m in mcs) + gen["states"],
        transitions=sum(m.get("states", 0) for m in mcs),
        distinct_states=sum(m.get("distinct", 0) for m in mcs),
        traces_validated_against_impl=len(alljobs),
        evaluations=len(events),
        distinct_nontrivial=len(distinct),
        rule="a trace is one history on ONE live Port object: New(operator, operands) followed by self-assignments "
             "through .items / .ports / .sport and operand reassignments, or one call of the range-string codec; "
             "sources: maximal paths of MC_PortObj (generator cfg, sampled) mapped onto real ports by monotone maps "
             "hitting 1 and 65535; an operand sweep (thorough: every operand 1..65535 for lt and gt, a 3/16 "
             "residue-class sample plus both ends for eq/neq); seeded random operand tuples of 1..10 ports; codec "
             "inputs incl. unordered and overlapping strings; non-trivial = contains a write-back or reassignment, or "
             "is a codec call; distinct = distinct step lists",
        samples=[dict(job=alljobs[i], events=ev_lists[i]) for i in (0, len(jobs) - 1, len(alljobs) - 1)],
        model_checking=mcs, generation=gen, trace_validation=vstats, exhaustive=False,
        checker_cmd="tlc MC_PortSem (L_Den, L_Cisco, L_Codec), MC_PortObj (Agree, WB_Identity, WB_ItemsNeverRefused, "
                    "SetPortsExact); tlc Trace_C08 (PMax=65535)",
    )
    return dict(verdicts=out, coverage=cov, level="model_checking",
                assumptions=["operand tuples with a repeated port (eq 5 5) are outside the write-back domain: their text "
                             "cannot survive a round trip through a set; their denotation is still checked",
                             "general assignments obj.ports = <arbitrary set> are modelled (SetPortsF) but only "
                             "self-assignments are bound to the code, as the property states"])


def replay(path):
    with open(path) as f:
        r = json.load(f)
    job = r["case"]
    core._init_worker(core.REPO)
    evs = exec_history(job) if "steps" in job else exec_codec(job)
    verdicts, _ = core.validate("Trace_C08", evs, nchunks=1)
    for v in verdicts:
        print("REPLAY verdict:", v)
    print("REPLAY events:", len(evs))
    return 1 if verdicts else 0
