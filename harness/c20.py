"""C20 - arbitrary text only ever yields an object or a documented value / type error.

spec: Outcome.tla (outcome alphabet, re-parse obligation); MC_Outcome enumerates the token soups tried
bind: (i) every sequence of <= 3 (quick) / 4 (thorough) tokens over a 16-token vocabulary per class, (ii) longer random
      soups, (iii) valid lines truncated at every token / with two tokens swapped / a token duplicated, (iv) whole
      configurations with random indentation (tabs, decreasing indents, indented first line), '!' lines, empty and
      whitespace-only input; all classes of the property and acls / aces / addrgroups on asa / ios / nxos; each call
      under a watchdog.  Judge: Trace_C20.
"""
from __future__ import annotations

import json
import random
import signal

from harness import core, aclhist
from harness import c01 as ace_gen
from harness import c07 as cfg_gen

PROP = "C20"
TRACE_MODULES = ["Trace_C20"]
VOC = ["permit", "deny", "remark", "ip", "tcp", "any", "host", "10.0.0.1", "0.0.0.255", "10.0.0.0/33", "eq", "range", "www", "80", "70000",
       "object-group"]
VOC_EXTRA = ["addrgroup", "G1", "log", "ack", "neq", "lt", "255.255.255.0", "10", "4294967296", "-1", "1.2.3", "0.0.0.0/0", "group-object",
             "description", "\t", "permit\tip", "10.0.0.1/24", "256.0.0.1", "ip access-list", "extended", "x" * 120, "?", "é", "0x10"]
CLASSES = ["Ace", "Remark", "AceGroup", "Acl", "Address", "AddressAg", "AddrGroup", "Port", "Protocol", "Option", "Wildcard"]
WATCHDOG_S = 5


import re as _re
def _memberless_group(text):
    """a configuration holds an address-group section whose body has no line that could be a member (nothing, or only
    description / comment / blank lines) - a syntactic fact used to name known finding F10"""
    lines = text.split("\n")
    for i, ln in enumerate(lines):
        if ln.startswith("object-group "):
            body = []
            for nx in lines[i + 1:]:
                if nx[:1] in (" ", "\t"):
                    body.append(nx.strip())
                elif nx.strip() == "" or nx.startswith("!"):
                    continue
                else:
                    break
            if all(b == "" or b.startswith("description") or b.startswith("!") for b in body):
                return True
    return False


_ZERO_MASK = _re.compile(r"\d+\.\d+\.\d+\.\d+[ \t]+0\.0\.0\.0[ \t]*$", _re.M)


class _Timeout(Exception):
    pass


def _alarm(signum, frame):
    raise _Timeout()


def _call(cls, text, plat, extra=None):
    import cisco_acl
    from cisco_acl import Acl, AceGroup, AddrGroup, Ace, Remark, Address, AddressAg, Port, Protocol, Option, Wildcard
    extra = dict(extra or {})
    if cls in ("acls", "aces", "addrgroups"):
        if cls == "addrgroups":
            extra.pop("group_by", None)
        r = getattr(cisco_acl, cls)(text, platform=plat, **extra)
        return r
    c = dict(Acl=Acl, AceGroup=AceGroup, AddrGroup=AddrGroup, Ace=Ace, Remark=Remark, Address=Address, AddressAg=AddressAg, Port=Port,
             Protocol=Protocol, Option=Option, Wildcard=Wildcard)[cls]
    kw = dict(platform=plat)
    if cls == "Port":
        kw["protocol"] = "tcp"
    if cls == "Acl":
        kw.update(extra)
    return c(text, **kw)


def _outcome(fn):
    import resource
    # a runaway allocation must end in MemoryError (an undocumented outcome), not in the OOM killer
    resource.setrlimit(resource.RLIMIT_AS, (6 * 1024 ** 3, resource.RLIM_INFINITY))
    signal.signal(signal.SIGALRM, _alarm)
    signal.alarm(WATCHDOG_S)
    try:
        r = fn()
        return "ok", r
    except _Timeout:
        return "Timeout", None
    except ValueError:
        return "ValueError", None
    except TypeError:
        return "TypeError", None
    except RecursionError:
        return "RecursionError", None
    except MemoryError:
        return "MemoryError", None
    except Exception as ex:  # noqa
        return type(ex).__name__, None
    finally:
        signal.alarm(0)


def exec_job(job):
    cls, plat, text = job["cls"], job["plat"], job["text"]
    e = dict(tid=job["tid"], i=0, act="Call", cls=cls, outcome="", re="ok")
    extra = job.get("kw")
    e["outcome"], obj = _outcome(lambda: _call(cls, text, plat, extra))
    if e["outcome"] == "Timeout":          # re-run once in isolation before it is believed
        e["outcome"], obj = _outcome(lambda: _call(cls, text, plat, extra))
    if e["outcome"] == "ok":
        objs = obj if isinstance(obj, list) else [obj]

        def again():
            for o in objs:
                c = type(o).__name__
                if c in CLASSES:
                    _call(c, o.line, plat, extra)
                elif hasattr(o, "line"):
                    _ = o.line
            return None
        e["re"], _x = _outcome(again)
    return [e]


def mutate(rng, line):
    t = line.split()
    r = rng.random()
    if r < 0.4 and len(t) > 1:
        return " ".join(t[: rng.randint(0, len(t) - 1)])
    if r < 0.6 and len(t) > 1:
        i, j = rng.randrange(len(t)), rng.randrange(len(t))
        t[i], t[j] = t[j], t[i]
        return " ".join(t)
    if r < 0.8 and t:
        i = rng.randrange(len(t))
        return " ".join(t[:i] + [t[i]] + t[i:])
    if t:
        t[rng.randrange(len(t))] = rng.choice(VOC + VOC_EXTRA)
    return " ".join(t)


def wild_config(rng, plat):
    secs, _names = cfg_gen.random_config(rng, plat)
    out = []
    for s in secs:
        if rng.random() < 0.2:
            out.append(rng.choice(["!", "", "   ", "! comment"]))
        out.append((rng.choice(["", "", " ", "\t"]) if rng.random() < 0.1 else "") + s["hs"])
        ind = rng.choice([" ", "  ", "\t", "    "])
        for b in s["body"]:
            ind2 = ind if rng.random() < 0.85 else rng.choice(["", " ", ind + " ", "\t\t"])
            out.append(ind2 + (mutate(rng, b) if rng.random() < 0.15 else b))
        if s["hs"].startswith("object-group") and rng.random() < 0.3:      # nested groups, descriptions, members of other grammars
            out.append(ind + rng.choice(["group-object G1", "group-object NOPE", "description inner", "range 10.0.0.1 10.0.0.9",
                                         "network-object host 10.0.0.1", "10.0.0.0/33"]))
    if rng.random() < 0.1:
        out.insert(0, "  indented first line")
    return "\n".join(out)


def run(tier, seed):
    rng = random.Random(seed * 373587883 + 20)
    soups, gen = core.generate("MC_Outcome", "MC_Outcome_gen" if tier == "quick" else "MC_Outcome_gen4")
    mcs = [dict(module="MC_Outcome", cfg=gen["cfg"], states=gen["states"], distinct=gen["distinct"], wall_s=gen["wall_s"])]
    jobs, t = [], 1

    def add(cls, plat, text, origin):
        nonlocal t
        jobs.append(dict(tid=t, cls=cls, plat=plat, text=text, origin=origin))
        t += 1
    # (i) exhaustive soups: every class sees every soup in thorough, a rotating class in quick
    for k, s in enumerate(soups):
        text = " ".join(VOC[i - 1] for i in s["soup"])
        classes = CLASSES if tier == "thorough" and len(s["soup"]) <= 3 else [CLASSES[k % len(CLASSES)], CLASSES[(k * 7 + 3) % len(CLASSES)]]
        for cls in classes:
            add(cls, ["ios", "nxos", "asa"][k % 3], text, "tlc-soup")
    # (ii) longer random soups
    for _ in range(4000 if tier == "quick" else 150000):
        n = rng.randint(4, 9)
        text = rng.choice([" ", "  ", "\t"]).join(rng.choice(VOC + VOC_EXTRA) for _k in range(n))
        add(rng.choice(CLASSES), rng.choice(["ios", "nxos", "asa"]), text, "random-soup")
    # (iii) mutated valid lines
    for _ in range(4000 if tier == "quick" else 150000):
        plat = rng.choice(["ios", "nxos"])
        line = ace_gen.ace_text(rng, plat, 0)
        m = mutate(rng, line)
        add(rng.choice(["Ace", "Ace", "AceGroup", "Acl", "Remark", "Address", "Port", "Option"]), rng.choice([plat, "asa"]), m, "mutated-line")
        if rng.random() < 0.3:
            add("Acl", plat, ("ip access-list extended X\n " if plat == "ios" else "ip access-list X\n ") + m + "\n " + mutate(rng, line), "mutated-line")
    # (iv) whole configurations and degenerate inputs
    for _ in range(800 if tier == "quick" else 20000):
        plat = rng.choice(["ios", "nxos"])
        cfg = wild_config(rng, plat)
        add(rng.choice(["acls", "aces", "addrgroups"]), rng.choice([plat, plat, "asa"]), cfg, "config")
        if rng.random() < 0.25:     # the grouping prefix is plain text, whatever characters it holds
            jobs[-1]["kw"] = dict(group_by=rng.choice(["= ", "*** ", "+++ ", "(", "[", "?", "\\", "== ", ".", "remark"]))
            jobs[-1]["origin"] = "config-group_by"
    for _ in range(150 if tier == "quick" else 3000):
        plat = rng.choice(["ios", "nxos"])
        hdr = "ip access-list extended X" if plat == "ios" else "ip access-list X"
        g = rng.choice(["= ", "*** ", "+++ ", "(", "[", "?", "\\", "$", "^", "|", "{1}", "a*"])
        body = [f"remark {g}HEAD", "permit ip any any", f"remark {rng.choice([g, 'x'])}", "deny tcp any any eq 80", "remark " + g]
        rng.shuffle(body)
        add("Acl", plat, "\n".join([hdr] + [" " + b for b in body]), "acl-group_by")
        jobs[-1]["kw"] = dict(group_by=g)
    for cls in CLASSES + ["acls", "aces", "addrgroups"]:
        for text in ["", " ", "\n", "\t\n  \n", "!", "!\n!\n", "\n\n permit ip any any", "ip access-list", "ip access-list extended", "object-group network",
                     "interface X\n ip access-group", "ip access-list extended A\n\tpermit ip any any\n  permit ip any any\n permit ip any any"]:
            for plat in ("ios", "nxos", "asa"):
                add(cls, plat, text, "degenerate")
    # (v) repetition: long digit runs, very many leading numbers, one token repeated very often - inputs on which a scanner that
    # backtracks or recurses per token does not come back (or dies of its own depth)
    heads = {"ios": "ip access-list extended X\n ", "nxos": "ip access-list X\n "}
    for _ in range(120 if tier == "quick" else 2500):
        plat = rng.choice(["ios", "nxos"])
        digits = "".join(rng.choice("0123456789") for _k in range(rng.choice([20, 28, 33, 39, 48, 64, 120])))
        numbers = " ".join(str(rng.randint(1, 99999)) for _k in range(rng.choice([12, 40, 300, 1200, 4000])))
        rep = (rng.choice(["permit", "remark", "eq", "host", "any", "10", "0", "1.", "255.", "-", "log", "object-group", " ", "\t"]) + rng.choice(["", " "])) \
            * rng.choice([30, 200, 1500])
        lead = rng.choice([digits, numbers, digits + " " + digits, rep, digits[:30] + " " * 40 + digits[:30]])
        tail = rng.choice(["", " ", " permit ip any any", " remark x", " host 10.0.0.1", " 10.0.0.0/24", " 10.0.0.0 0.0.0.255", " any any permit ip",
                           " eq 80", "permit ip any any"])
        text = lead + tail
        if rng.random() < 0.3:
            text = "permit tcp any " + rng.choice(["eq ", "range ", "neq ", ""]) + lead + rng.choice(["", " any", " log"])
        cls = rng.choice(["Ace", "Remark", "AceGroup", "AceGroup", "Acl", "Acl", "aces", "aces", "acls", "Address", "Port", "Option", "Wildcard", "AddrGroup", "Protocol"])
        if cls == "Acl":
            text = heads[plat] + text + "\n permit ip any any"
        elif cls == "acls":
            text = heads[plat] + text + "\n permit ip any any\ninterface X\n ip access-group X in"
        add(cls, plat, text, "repetition")
    ev_lists = core.pmap_guarded(exec_job, jobs, per_item_timeout=60,
                                 on_timeout=lambda j: [dict(tid=j["tid"], i=0, act="Call", cls=j["cls"], outcome="Timeout", re="ok")])
    events = [e for evs in ev_lists for e in evs]
    verdicts, vstats = core.validate("Trace_C20", events)
    by_tid = {j["tid"]: (j, evs) for j, evs in zip(jobs, ev_lists)}
    out = []
    for v in verdicts:
        j, evs = by_tid[v["tid"]]
        out.append(dict(clause=v["clause"], features=dict(cls=j["cls"], outcome=evs[0]["outcome"], re=evs[0]["re"],
                                                          blank_input=not j["text"].strip(),
                                                          zero_netmask_line=bool(_ZERO_MASK.search(j["text"])),
                                                          memberless_group=_memberless_group(j["text"])), case=j, events=evs))
    outcomes = {}
    for e in events:
        outcomes[e["outcome"]] = outcomes.get(e["outcome"], 0) + 1
    distinct = {json.dumps([j["cls"], j["plat"], j["text"]]) for j in jobs}
    cov = dict(
        evaluations=len(events), distinct_nontrivial=len(distinct), states=gen["states"], transitions=gen["states"],
        traces_validated_against_impl=len(jobs), outcomes=outcomes,
        rule="one case = one call Class(text, platform) or acls/aces/addrgroups(text, platform) under a 5 s watchdog (a timeout is "
             "re-run once before it is reported) and, when it returned, the re-construction of every returned object from its "
             "rendered text; inputs: EVERY sequence of <= 3 (quick) / 4 (thorough) tokens over a 16-token vocabulary (TLC "
             "enumerates the index sequences), random soups of 4..9 tokens over a 40-token vocabulary incl. tabs, non-ASCII "
             "and over-long tokens, valid ACE lines truncated / with two tokens swapped / a token duplicated / replaced, "
             "multi-line ACLs of such lines, whole configurations with tabs, decreasing and irregular indents, an indented "
             "first line, comment lines, empty / whitespace-only inputs for every class, and repetition inputs (digit runs of "
             "20..120 digits, 12..4000 leading numbers, one token repeated 30..1500 times, alone or in front of / inside an entry, "
             "as a line, an ACL body or a configuration); distinct = distinct (class, "
             "platform, text); every case is non-trivial",
        samples=[dict(job=jobs[i], events=ev_lists[i]) for i in (10, len(jobs) // 2, len(jobs) - 1)],
        model_checking=mcs, trace_validation=vstats, exhaustive=False,
        explanation="exploration of the string space by enumeration and sampling; the specification contributes the outcome "
                    "alphabet, the enumeration of soups and the judgement; 'never endless' is decided up to the watchdog bound",
    )
    return dict(verdicts=out, coverage=cov, level="exploration", assumptions=[
        "the set of all strings cannot be enumerated: soups are exhaustive only up to the stated length over the stated vocabulary",
        "a call that needs more than 5 s twice in a row counts as not finishing"])


def replay(path):
    with open(path) as f:
        r = json.load(f)
    core._init_worker(core.REPO)
    evs = exec_job(r["case"])
    verdicts, _ = core.validate("Trace_C20", evs, nchunks=1)
    for v in verdicts:
        print("REPLAY verdict:", v)
    print("REPLAY:", json.dumps(r["case"])[:500], evs[0])
    return 1 if verdicts else 0
