"""C12 - no rule line is lost without a trace when objects are built from text.

spec: Lines.tla (kinds of body lines, outcome of a construction, accounting identity), readers of AceText / AddrText
mc:   MC_Lines: every sequence of <= 5 line kinds satisfies the accounting identity and fails only where documented
bind: every kind sequence of length <= 4 TLC prints, each kind concretised by several real lines (valid ACEs and
      remarks, the three ignorable prefixes, an over-limit wildcard, many sorts of junk), plus longer random mixes, as
      Acl(line=), AceGroup(line=), AddrGroup(line=) on both platforms with every log record captured.
      Judge: Trace_C12, which classifies every body line from its tokens itself.
"""
from __future__ import annotations

import json
import logging
import random

from harness import core, lex, aclhist
from harness.c13 import spellings_member
from harness.shadow import rand_w

PROP = "C12"
TRACE_MODULES = ["Trace_C12"]


class _Cap(logging.Handler):
    def __init__(self):
        super().__init__(level=logging.DEBUG)
        self.msgs = []

    def emit(self, record):
        try:
            self.msgs.append((record.levelno, record.getMessage()))
        except Exception:  # noqa
            self.msgs.append((record.levelno, str(record.msg)))


def exec_job(job):
    from cisco_acl import Acl, AceGroup, AddrGroup
    logging.disable(logging.NOTSET)
    root = logging.getLogger()
    cap = _Cap()
    old_level = root.level
    root.addHandler(cap)
    root.setLevel(logging.DEBUG)
    cls, plat = job["cls"], job["plat"]
    e = dict(tid=job["tid"], i=0, act="Build", cls=cls, plat=plat, exc="", items=[], header_ok=True,
             lines=[dict(toks=lex.lex(s), reported=False) for s in job["lines"]])
    try:
        ind = job.get("indent", "  ")
        body = "\n".join(ind + s for s in job["lines"])
        if job.get("via") == "config" and cls in ("Acl", "AddrGroup"):
            # the same section entered in two chunks of a configuration (header repeated, another section in between),
            # read by the config-level function: every body line of both chunks is accounted for, in order
            import cisco_acl
            k = job["split"] % (len(job["lines"]) + 1)
            chunk = lambda ls: [job["header"]] + [ind + x for x in ls]      # noqa
            text = "\n".join(chunk(job["lines"][:k]) + ["hostname R1", "interface Vlan1", " no shutdown"] + chunk(job["lines"][k:])) + "\n"
            got = cisco_acl.acls(text, platform=plat) if cls == "Acl" else cisco_acl.addrgroups(text, platform=plat)
            if len(got) != 1:
                raise LookupError(f"{len(got)} objects")
            o = got[0]
            e["header_ok"] = o.name == job["name"]
            e["items"] = [lex.lex(x.line) for x in (aclhist.leaves_of(o) if cls == "Acl" else o.items)]
        elif cls == "Acl":
            o = Acl(job["header"] + "\n" + body, platform=plat)
            e["header_ok"] = o.name == job["name"]
            e["items"] = [lex.lex(x.line) for x in aclhist.leaves_of(o)]
        elif cls == "AceGroup":
            o = AceGroup("\n".join(job["lines"]), platform=plat)
            e["items"] = [lex.lex(x.line) for x in o.items]
        else:
            o = AddrGroup(job["header"] + "\n" + body, platform=plat)
            e["header_ok"] = o.name == job["name"]
            e["items"] = [lex.lex(x.line) for x in o.items]
    except Exception as ex:  # noqa
        e["exc"] = core.exc_name(ex)
    finally:
        root.removeHandler(cap)
        root.setLevel(old_level)
        logging.disable(logging.CRITICAL)
    for ln, s in zip(e["lines"], job["lines"]):
        txt = " ".join(s.split())
        if not txt:
            continue
        rest = " ".join(txt.split()[1:]) if txt.split()[0].isdigit() else txt
        need = logging.WARNING if cls != "AddrGroup" else logging.DEBUG
        ln["reported"] = any(lvl >= need and (txt in m or (rest and rest in m and cls == "AddrGroup")) for lvl, m in cap.msgs)
    return [e]


# ------------------------------------------------------------------ lines of each kind (syntax only)

JUNK_ACL = ["foo bar", "permit ip any", "permit tcp any any eq bogusname", "permit ip 256.1.1.1 0.0.0.0 any", "remark", "10",
            "permit bogus any any", "deny", "permit ip any any eq 80", "permit tcp any lt 1 2 any", "access-list 10 permit any",
            "20 foo", "permit 256 any any", "permit tcp any any range 5", "no permit ip any any", "permit ip host any", "Permit ip any any",
            "ignore", "description", "statistics", "descriptions of things", "statistics-per-entry", "ignored-by-policy any", "ignoreX y",
            "remarkable text", "permitted ip any any", "denyip any any",
            "ip access-list extended OTHER", "ip access-list resequence 10 10", "ip access-list OTHER", "object-group network G1",
            "interface Ethernet1/1", "ip access-group A1 in", "exit", "end", "!permit ip any any", "! comment", "!"]
JUNK_MEMBER = ["foo", "10.0.0.256 255.255.255.0", "host", "10.0.0.0/33", "range 10.0.0.1 10.0.0.5", "10 bar baz", "10.0.0.1 255.0.255.0",
               "!host 10.0.0.1", "! comment"]
IGNORABLE = ["statistics per-entry", "description some text", "ignore routable", "statistics x y z"]


def line_of(rng, kind, cls, plat):
    if kind == "ignorable":
        return rng.choice(IGNORABLE) if cls != "AddrGroup" else "description group text"
    if cls == "AddrGroup":
        if kind == "valid":
            w = rand_w(rng, maxnc=0 if plat == "ios" else 2)
            sp = [s for s in spellings_member(w, plat) if not (plat == "ios" and "/" in s)]
            m = rng.choice(sp) if sp else "host 10.0.0.1"
            return f"{rng.randint(1, 99)} {m}" if plat == "nxos" and rng.random() < 0.5 else m
        if kind == "fatal":
            return "10.0.0.0 0.255.255.254" if plat == "nxos" else rng.choice(JUNK_MEMBER)
        return rng.choice(JUNK_MEMBER)
    if kind == "valid":
        if rng.random() < 0.25:
            return rng.choice(["remark some text", "10 remark = H1", "remark permit ip any any", "remark 10"])
        _h, lines, _g = aclhist.seed_acl(rng, plat, n=1, groups=False, headings=False, numbered=rng.random() < 0.3)
        return lines[0]
    if kind == "fatal":
        return rng.choice(["permit ip 10.0.0.0 0.255.255.254 any", "deny tcp any 1.0.0.0 254.255.255.254 eq 80"])
    return rng.choice(JUNK_ACL)


def mk_job(rng, tid, kinds, origin):
    cls = rng.choice(["Acl", "Acl", "AceGroup", "AddrGroup"])
    plat = rng.choice(["ios", "nxos"])
    lines = [line_of(rng, k, cls, plat) for k in kinds]
    if rng.random() < 0.15 and lines:
        lines.insert(rng.randint(0, len(lines)), "")
    name = rng.choice(["A1", "NAME-2"])
    if cls == "AddrGroup":
        header = (f"object-group ip address {name}" if plat == "nxos" else f"object-group network {name}")
    else:
        header = f"ip access-list {name}" if plat == "nxos" else f"ip access-list extended {name}"
    job = dict(tid=tid, cls=cls, plat=plat, header=header, name=name, lines=lines, indent=rng.choice([" ", "  ", "    "]), origin=origin)
    # (the config-level readers are stricter about junk than the classes; only lists of valid lines go this way)
    if cls in ("Acl", "AddrGroup") and lines and all(k == "valid" for k in kinds) and rng.random() < 0.4 and "" not in lines:
        job.update(via="config", split=rng.randint(0, 12), origin=origin + "-config-two-chunks")
    return job


def run(tier, seed):
    rng = random.Random(seed * 334214459 + 12)
    mcs = [core.mc("MC_Lines", workers=4)]
    seqs, gen = core.generate("MC_Lines", "MC_Lines_gen")
    jobs, t = [], 1
    reps = 8 if tier == "quick" else 40
    for s in seqs:
        for _ in range(reps):
            jobs.append(mk_job(rng, t, s["ks"], "tlc")); t += 1
    for _ in range(4000 if tier == "quick" else 60000):
        kinds = [rng.choice(["valid", "valid", "valid", "ignorable", "invalid", "invalid", "fatal"] if rng.random() < 0.15
                            else ["valid", "valid", "valid", "ignorable", "invalid", "invalid"]) for _k in range(rng.randint(5, 10))]
        jobs.append(mk_job(rng, t, kinds, "random")); t += 1
    ev_lists = core.pmap(exec_job, jobs)
    events = [e for evs in ev_lists for e in evs]
    verdicts, vstats = core.validate("Trace_C12", events)
    by_tid = {j["tid"]: (j, evs) for j, evs in zip(jobs, ev_lists)}
    out = []
    for v in verdicts:
        j, evs = by_tid[v["tid"]]
        out.append(dict(clause=v["clause"], features=dict(cls=j["cls"], plat=j["plat"]), case=j,
                        events=[dict(exc=evs[0]["exc"], items=[" ".join(t_["s"] for t_ in it) for it in evs[0]["items"]],
                                     reported=[x["reported"] for x in evs[0]["lines"]])]))
    distinct = {json.dumps([j["cls"], j["plat"], j["lines"]]) for j in jobs if j["lines"]}
    cov = dict(
        states=sum(m.get("states", 0) for m in mcs) + gen["states"], transitions=sum(m.get("states", 0) for m in mcs),
        distinct_states=sum(m.get("distinct", 0) for m in mcs),
        traces_validated_against_impl=len(jobs), evaluations=len(events), distinct_nontrivial=len(distinct),
        rule="one trace = one construction of Acl(line=) / AceGroup(line=) / AddrGroup(line=) with all records of the root "
             "logger captured at DEBUG; bodies: every sequence of <= 4 line kinds TLC prints (valid / ignorable / fatal / "
             "invalid), each concretised several times with different real lines (valid ACEs and remarks incl. remarks that "
             "look like rules, the three ignorable prefixes, over-limit wildcards, 17 sorts of junk incl. lines that only "
             "look like an ACE), plus seeded mixes of 5..10 lines, blank lines, indentation 1..4, both platforms; "
             "non-trivial = at least one body line; distinct = distinct (class, platform, lines)",
        samples=[dict(job=jobs[i], events=[dict(exc=ev_lists[i][0]["exc"], n_items=len(ev_lists[i][0]["items"]))]) for i in (5, len(jobs) // 2, len(jobs) - 1)],
        model_checking=mcs, generation=gen, trace_validation=vstats, exhaustive=False,
        checker_cmd="tlc MC_Lines (P_Accounted, P_FailOnlyIfDocumented); tlc Trace_C12",
    )
    return dict(verdicts=out, coverage=cov, level="model_checking", assumptions=[
        "'reported' = some captured log record (WARNING or above for ACL / ACE group, any level for address groups) whose "
        "message contains the line's text (for address-group members: the text after the member number)",
        "the non-contiguous-bit limit is the default 16"])


def replay(path):
    with open(path) as f:
        r = json.load(f)
    core._init_worker(core.REPO)
    evs = exec_job(r["case"])
    verdicts, _ = core.validate("Trace_C12", evs, nchunks=1)
    for v in verdicts:
        print("REPLAY verdict:", v)
    print("REPLAY:", json.dumps(r["case"])[:800], evs[0]["exc"], len(evs[0]["items"]))
    return 1 if verdicts else 0
