"""Shared machinery: TLC runs (model checking, generation, trace validation), parallel execution
of the real library, evidence files, known findings, replays.

The Python side contains no ACL semantics: it lexes text into typed tokens, concretises model
values into real arguments, calls the public API and projects what the API exposes.  Every verdict
is TLC's (see DESIGN.md section 5).
"""
from __future__ import annotations

import json
import multiprocessing as mp
import os
import re
import shutil
import subprocess
import sys
import tempfile
import time
from concurrent.futures import ThreadPoolExecutor

VERIF = os.path.dirname(os.path.dirname(os.path.abspath(__file__)))
REPO = os.environ.get("VERIF_REPO", "/repo")
SPEC = os.path.join(VERIF, "spec")
CP = "/opt/veriftools/tla/tla2tools.jar:/opt/veriftools/tla/CommunityModules-deps.jar"
NCPU = min(16, os.cpu_count() or 4)
GUARD = "CISCO_ACL_VERIF"


class MachineryError(Exception):
    """Something in the verification machinery itself failed (exit code 2, never a verdict)."""


# ----------------------------------------------------------------------------- scratch

_SCRATCH = None


def scratch() -> str:
    global _SCRATCH
    if _SCRATCH is None:
        _SCRATCH = tempfile.mkdtemp(prefix="verif_run_")
    return _SCRATCH


def cleanup():
    global _SCRATCH
    if _SCRATCH and os.path.isdir(_SCRATCH):
        shutil.rmtree(_SCRATCH, ignore_errors=True)
    _SCRATCH = None


# ----------------------------------------------------------------------------- TLC

def _tlc_cmd(tla, cfg, metadir, workers, extra):
    lib = os.pathsep.join([SPEC, os.path.join(SPEC, "mc"), os.path.join(SPEC, "trace")])
    jtmp = os.path.join(scratch(), "jtmp")       # TLC unpacks its standard modules into java.io.tmpdir on every start
    os.makedirs(jtmp, exist_ok=True)
    return ["java", "-XX:+UseParallelGC", "-Xss64m", "-Xmx3g", f"-Djava.io.tmpdir={jtmp}", f"-DTLA-Library={lib}", "-cp", CP, "tlc2.TLC",
            "-workers", str(workers), "-metadir", metadir, "-noGenerateSpecTE",
            "-config", cfg, *extra, tla]


_RE_STATS = re.compile(r"(\d+) states generated, (\d+) distinct states found")
_RE_DEPTH = re.compile(r"depth of the complete state graph search is (\d+)")
_n_tlc = [0]


def tlc(tla, cfg, workers=1, env=None, extra=(), timeout=7200):
    """Run TLC, return (returncode, stdout)."""
    _n_tlc[0] += 1
    metadir = os.path.join(scratch(), f"meta{os.getpid()}_{_n_tlc[0]}_{time.time_ns()}")
    e = dict(os.environ)
    if env:
        e.update(env)
    cmd = _tlc_cmd(tla, cfg, metadir, workers, list(extra))
    try:
        p = subprocess.run(cmd, cwd=SPEC, env=e, stdout=subprocess.PIPE, stderr=subprocess.STDOUT,
                           text=True, timeout=timeout)
    except subprocess.TimeoutExpired as ex:
        raise MachineryError(f"TLC timeout on {tla} {cfg}") from ex
    finally:
        shutil.rmtree(metadir, ignore_errors=True)
    return p.returncode, p.stdout


def dbg(msg):
    if os.environ.get("VERIF_DEBUG"):
        print(f"[{time.strftime('%H:%M:%S')}] {msg}", file=sys.stderr, flush=True)


def mc(module, cfg=None, workers=NCPU, expect_violation=None, timeout=7200):
    """Model-check spec/mc/<module>.tla with spec/mc/<cfg>.cfg.  The model must satisfy every
    listed invariant / property (or, with expect_violation=<name>, must violate that one: used to
    show that an invariant is not vacuous).  Returns TLC's own statistics."""
    cfg = cfg or module
    t0 = time.time()
    rc, out = tlc(os.path.join(SPEC, "mc", module + ".tla"), os.path.join(SPEC, "mc", cfg + ".cfg"),
                  workers=workers, timeout=timeout)
    dbg(f"mc {cfg} {time.time() - t0:.1f}s")
    m = _RE_STATS.search(out)
    stats = dict(module=module, cfg=cfg, wall_s=round(time.time() - t0, 1))
    if expect_violation:
        if re.search(rf"(Invariant|property|Action property) {re.escape(expect_violation)} is violated", out) is None:
            raise MachineryError(f"{cfg}: expected violation of {expect_violation} not found:\n{out[-2000:]}")
        stats["expected_violation"] = expect_violation
        return stats
    if "Model checking completed. No error has been found." not in out or not m:
        raise MachineryError(f"model checking of {cfg} failed:\n{out[-3000:]}")
    stats.update(states=int(m.group(1)), distinct=int(m.group(2)))
    d = _RE_DEPTH.search(out)
    if d:
        stats["depth"] = int(d.group(1))
    return stats


def apalache(module, inv, expect_violation=False, timeout=900):
    """Symbolic check (Apalache, SMT) of a state predicate of spec/apalache/<module>.tla over all initial states: used for
    lemmas at the REAL constants that TLC can only enumerate at small ones.  Returns statistics; the tool missing or
    failing is a machinery failure, like a TLC failure."""
    t0 = time.time()
    outdir = os.path.join(scratch(), f"apa_{module}_{inv}")
    cmd = ["apalache-mc", "check", "--init=Init", f"--inv={inv}", "--length=0", f"--out-dir={outdir}", os.path.join(SPEC, "apalache", module + ".tla")]
    try:
        p = subprocess.run(cmd, cwd=scratch(), stdout=subprocess.PIPE, stderr=subprocess.STDOUT, text=True, timeout=timeout,
                           env=dict(os.environ, JVM_ARGS=os.environ.get("JVM_ARGS", "-Xmx2g")))
    except (subprocess.TimeoutExpired, FileNotFoundError) as ex:
        raise MachineryError(f"apalache on {module}.{inv}: {ex}") from ex
    finally:
        shutil.rmtree(outdir, ignore_errors=True)
    ok = "The outcome is: NoError" in p.stdout
    bad = "The outcome is: Error" in p.stdout
    if expect_violation:
        if not bad:
            raise MachineryError(f"apalache {module}.{inv}: expected a counterexample, got:\n{p.stdout[-1500:]}")
    elif not ok:
        raise MachineryError(f"apalache {module}.{inv} failed:\n{p.stdout[-1500:]}")
    return dict(module=module, cfg=f"apalache --inv={inv}", wall_s=round(time.time() - t0, 1), engine="apalache 0.58 (SMT, symbolic)",
                **({"expected_violation": inv} if expect_violation else {"states": 0, "distinct": 0}))


def _printed_json(out):
    """JSON values printed by PrintT(ToJson(..)): TLC prints the TLA+ string in quotes."""
    res = []
    for line in out.splitlines():
        line = line.strip()
        if line.startswith('"{') and line.endswith('}"'):
            try:
                res.append(json.loads(json.loads(line)))
            except ValueError:
                pass
    return res


def generate(module, cfg, workers=1, timeout=3600):
    """Run a generator configuration; returns (list of JSON values TLC printed, stats)."""
    t0 = time.time()
    rc, out = tlc(os.path.join(SPEC, "mc", module + ".tla"), os.path.join(SPEC, "mc", cfg + ".cfg"),
                  workers=workers, timeout=timeout)
    m = _RE_STATS.search(out)
    if "Model checking completed. No error has been found." not in out or not m:
        raise MachineryError(f"generation with {cfg} failed:\n{out[-3000:]}")
    vals = _printed_json(out)
    return vals, dict(module=module, cfg=cfg, states=int(m.group(1)), distinct=int(m.group(2)),
                      printed=len(vals), wall_s=round(time.time() - t0, 1))


def preflight(trace_module, cfg=None):
    """Parse / start the trace specification on an empty trace so that a broken module fails in a second."""
    path = os.path.join(scratch(), f"empty_{trace_module}.ndjson")
    open(path, "w").close()
    rc, out = tlc(os.path.join(SPEC, "trace", trace_module + ".tla"), os.path.join(SPEC, "trace", (cfg or trace_module) + ".cfg"),
                  workers=1, env={"TRACE_FILE": path}, timeout=300)
    if "Model checking completed. No error has been found." not in out:
        raise MachineryError(f"trace specification {trace_module} does not load:\n{out[-2500:]}")


def _split_events(events, nchunks):
    """Split at trace (tid) boundaries into at most nchunks chunks of similar size."""
    if not events:
        return []
    target = max(1, len(events) // nchunks + 1)
    chunks, cur, last_tid = [], [], None
    for e in events:
        if len(cur) >= target and e["tid"] != last_tid:
            chunks.append(cur)
            cur = []
        cur.append(e)
        last_tid = e["tid"]
    if cur:
        chunks.append(cur)
    return chunks


def validate(trace_module, events, cfg=None, nchunks=NCPU, timeout=7200):
    """TLC decides whether the recorded events are behaviours of the specification.
    Returns (verdicts, stats): verdicts = list of {tid, i, clause}."""
    cfg = cfg or trace_module
    t0 = time.time()
    chunks = _split_events(events, nchunks)
    tla = os.path.join(SPEC, "trace", trace_module + ".tla")
    cfgp = os.path.join(SPEC, "trace", cfg + ".cfg")

    def one(k):
        path = os.path.join(scratch(), f"trace_{trace_module}_{os.getpid()}_{k}.ndjson")
        with open(path, "w") as f:
            for e in chunks[k]:
                f.write(json.dumps(e, separators=(",", ":")) + "\n")
        rc, out = tlc(tla, cfgp, workers=1, env={"TRACE_FILE": path}, timeout=timeout)
        os.unlink(path)
        vals = _printed_json(out)
        post = [v for v in vals if "consumed" in v]
        if not post or "Error:" in out or "error" in out.lower().split("no error has been found")[0][-0:] and False:
            raise MachineryError(f"trace validation {trace_module} chunk {k} failed:\n{out[-3000:]}")
        if "Model checking completed. No error has been found." not in out:
            raise MachineryError(f"trace validation {trace_module} chunk {k} failed:\n{out[-3000:]}")
        if post[-1]["consumed"] != post[-1]["total"] or post[-1]["total"] != len(chunks[k]):
            raise MachineryError(f"trace validation {trace_module} chunk {k}: consumed {post[-1]} of {len(chunks[k])}")
        verdicts = []
        for v in vals:
            if "verdicts" in v:
                verdicts.extend(v["verdicts"])
        return verdicts

    verdicts = []
    if chunks:
        with ThreadPoolExecutor(max_workers=NCPU) as ex:
            for vs in ex.map(one, range(len(chunks))):
                verdicts.extend(vs)
    dbg(f"validate {trace_module} {len(events)} events {time.time() - t0:.1f}s")
    return verdicts, dict(trace_module=trace_module, events=len(events), chunks=len(chunks),
                          wall_s=round(time.time() - t0, 1))


# ----------------------------------------------------------------------------- real code

def exec_validate(exec_fn, jobs, trace_module, batch=12000, count=None):
    """execute the jobs and validate their events in batches (memory stays bounded: events carry bit vectors and are
    large).  Returns (hits, vstats, n_events, samples): hits = [(verdict, job, events of that job)] for every verdict,
    samples = [(job, events)] of the first / middle / last job."""
    hits, samples, n_events, vs, counted = [], [], 0, [], 0
    want = {0, len(jobs) // 2, len(jobs) - 1} if jobs else set()
    for b0 in range(0, len(jobs), batch):
        part = jobs[b0:b0 + batch]
        ev_lists = pmap(exec_fn, part)
        events = [e for evs in ev_lists for e in evs]
        n_events += len(events)
        if count is not None:
            counted += sum(1 for e in events if count(e))
        verdicts, vstats = validate(trace_module, events)
        vs.append(vstats)
        by_tid = {j["tid"]: (j, evs) for j, evs in zip(part, ev_lists)}
        for v in verdicts:
            j, evs = by_tid[v["tid"]]
            hits.append((v, j, evs))
        for k in want:
            if b0 <= k < b0 + len(part):
                samples.append((part[k - b0], ev_lists[k - b0]))
        del ev_lists, events, by_tid
    agg = dict(trace_module=trace_module, events=n_events, batches=len(vs), chunks=sum(v.get("chunks", 0) for v in vs),
               wall_s=round(sum(v.get("wall_s", 0) for v in vs), 1), counted=counted)
    return hits, agg, n_events, samples


def _init_worker(repo):
    sys.dont_write_bytecode = True
    os.environ[GUARD] = "1"
    if sys.path[0] != repo:
        sys.path.insert(0, repo)
    import logging
    logging.disable(logging.CRITICAL)  # individual checks re-enable when logs are observed
    import cisco_acl  # noqa
    if not os.path.abspath(cisco_acl.__file__).startswith(os.path.abspath(repo) + os.sep):
        raise MachineryError(f"cisco_acl imported from {cisco_acl.__file__}, expected under {repo}")


def pmap(func, items, chunksize=None):
    """Run func over items in NCPU processes that import cisco_acl from REPO's working tree."""
    items = list(items)
    if not items:
        return []
    if chunksize is None:
        chunksize = max(1, min(200, len(items) // (NCPU * 4) + 1))
    ctx = mp.get_context("fork")
    t0 = time.time()
    with ctx.Pool(NCPU, initializer=_init_worker, initargs=(REPO,)) as pool:
        res = pool.map(func, items, chunksize=chunksize)
    dbg(f"pmap {getattr(func, '__name__', '?')} {len(items)} items {time.time() - t0:.1f}s")
    return res


def pmap_guarded(func, items, per_item_timeout, on_timeout):
    """Like pmap, but every item has a hard deadline enforced from outside the worker (a computation stuck in C code
    or a worker killed by the OOM killer cannot hang the check); on_timeout(item) supplies the result for such an item."""
    items = list(items)
    if not items:
        return []
    ctx = mp.get_context("fork")
    t0 = time.time()
    results = [None] * len(items)
    todo = list(range(len(items)))
    while todo:
        pool = ctx.Pool(NCPU, initializer=_init_worker, initargs=(REPO,), maxtasksperchild=2000)
        handles = [(i, pool.apply_async(func, (items[i],))) for i in todo]
        stuck = None
        for i, h in handles:
            try:
                results[i] = h.get(timeout=per_item_timeout if stuck is None else 0.01)
            except mp.TimeoutError:
                if stuck is None:
                    stuck = i
            except Exception as ex:  # noqa  worker-side machinery failure
                pool.terminate()
                raise MachineryError(f"worker failed on item {i}: {type(ex).__name__}: {ex}") from ex
        pool.terminate()
        pool.join()
        if stuck is None:
            todo = []
        else:
            results[stuck] = on_timeout(items[stuck])
            todo = [i for i in todo if results[i] is None]
    dbg(f"pmap_guarded {getattr(func, '__name__', '?')} {len(items)} items {time.time() - t0:.1f}s")
    return results


def cap(items, n, rng):
    """At most n items: a seeded sample that keeps order (and renumbers nothing)."""
    items = list(items)
    if len(items) <= n:
        return items
    keep = set(rng.sample(range(len(items)), n))
    return [x for i, x in enumerate(items) if i in keep]


def exc_name(ex) -> str:
    return type(ex).__name__


# ----------------------------------------------------------------------------- findings / evidence

def load_findings():
    path = os.path.join(VERIF, "known_findings.json")
    if not os.path.exists(path):
        return []
    with open(path) as f:
        return [x for x in json.load(f).get("open", [])]


def write_replay(prop, name, payload) -> str:
    d = os.environ.get("VERIF_REPLAY_DIR") or os.path.join(VERIF, "replays")
    os.makedirs(d, exist_ok=True)
    path = os.path.join(d, f"{prop}_{name}.json")
    with open(path, "w") as f:
        json.dump(payload, f, indent=1, default=str)
    return path


def write_evidence(prop, tier, seed, level, coverage, assumptions, wall_s, violations):
    d = os.environ.get("VERIF_EVIDENCE_DIR") or os.path.join(VERIF, "evidence")   # (redirected only by the mutant tools)
    os.makedirs(d, exist_ok=True)
    ev = dict(property_id=prop, tier=tier, seed=seed, level=level, coverage=coverage,
              assumptions=assumptions, wall_s=round(wall_s, 1), violations=violations)
    with open(os.path.join(d, f"{prop}.json"), "w") as f:
        json.dump(ev, f, indent=1, default=str)
    return ev


COMMON_ASSUMPTIONS = [
    "TLC / SANY / JVM and CPython are trusted",
    "small-scope step: the symbolic operators used to judge full-size traces (W=32, ports 1..65535) are proved equal "
    "to the enumerative ground truth only for every input of the small model-checking instance; they are uniform in "
    "W and PMax",
    "the harness' lexer / concretiser / projection (harness/lex.py, harness/proj.py) are trusted to be purely syntactic",
    "semantic conventions of DESIGN.md section 4 (port 0 = no port, legacy TCP-flag keywords match any-of, "
    "first match, refusal is not an answer)",
]
