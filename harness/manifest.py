"""Regenerates /verif/MANIFEST.json from the table below (run: /venv/bin/python harness/manifest.py)."""
import json
import os

VERIF = os.path.dirname(os.path.dirname(os.path.abspath(__file__)))

TRUST = ("Trusted: TLC/SANY/JVM, CPython, the purely syntactic lexer/concretiser/projection in harness/lex.py, the semantic "
         "conventions of DESIGN.md section 4, and the small-scope step from the exhaustively checked model instance "
         "(W=3/4 address bits, ports 1..6) to the full-size symbolic operators used to judge implementation traces.")

# id -> (category, technique, level text, design ref)
CHECKS = {
    "C05": ("model_checking",
            "TLA+ spec (AddrSem, WildcardObj) model-checked by TLC; TLC-generated histories replayed on live objects; "
            "implementation traces validated by TLC at W=32",
            "TLC proves on the small instance that the symbolic prefix decomposition equals the enumerated address set "
            "(all 4096 / 65536 wildcard pairs) and that no history of New/SetLine/SetLimit/queries leaves a stale memo; "
            "every maximal history TLC enumerates is replayed through address windows on ONE live Wildcard object, plus "
            "all limits 0..30 at k=limit-1,limit,limit+1 and seeded random 32-bit histories, and TLC (Trace_C05, W=32) "
            "judges every recorded step. Exhaustive for the model instance, sampled for the 2^64 real inputs.",
            "7 (C05)"),
    "C08": ("model_checking",
            "TLA+ spec (PortSem, PortObj) model-checked by TLC; TLC-generated histories replayed on live Port objects; "
            "implementation traces validated by TLC with interval arithmetic at PMax=65535",
            "TLC proves on the small instance (ports 1..6, operands 0..7, all 5 operators, all operand tuples up to 3, all "
            "64 subsets) that the interval semantics equals Cisco's set definitions and that every history of the writable "
            "views keeps the three views in agreement and makes self-assignment the identity; TLC-enumerated histories are "
            "replayed through monotone port maps on ONE live Port object, an operand sweep (thorough: every operand "
            "1..65535 for lt/gt) and random tuples are added, and TLC (Trace_C08) judges each recorded step.",
            "7 (C08)"),
    "C13": ("model_checking",
            "TLA+ spec (AddrSem, AddrText, AddrObj) model-checked by TLC; TLC-enumerated operand pairs concretised and "
            "queried on the real classes; answers validated by TLC at W=32 from the input tokens",
            "TLC proves on the small instance that SubW (bit algebra) equals set containment for all 4096/65536 wildcard "
            "pairs and, for all 615 440 operand pairs incl. groups of 0..2 members, that the symbolic exact-containment "
            "operator equals the enumerated one and that the documented list relation is exact without groups and sound "
            "with them; every generated pair is embedded through address windows, spelled natively and foreign on both "
            "platforms and asked through subnet_of / in-member / in-group, with in-place member edits between repeated "
            "queries; TLC (Trace_C13) parses the operand meaning from the input tokens and judges every answer.",
            "7 (C13)"),
    "C14": ("model_checking",
            "TLA+ spec (Collapse: postcondition + the work-list algorithm as a step function) model-checked by TLC incl. "
            "termination; TLC-enumerated input lists concretised and run through both collapse functions; results "
            "validated by TLC at W=32",
            "TLC explores the work-list algorithm from every list of <= 3 (quick) / 4 (thorough) prefixes over 3 bits: it "
            "terminates (liveness under weak fairness), conserves the covered set at every step and ends in the "
            "postcondition, and the symbolic union test used at full size equals the enumerated union; every such list "
            "is embedded at several offsets, spelled per class/platform and collapsed by the real code, together with "
            "random 32-bit lists, non-contiguous and foreign-type inputs; TLC (Trace_C14) decides set equality, length "
            "bound, order, notes, class/platform and the refusals.",
            "7 (C14)"),
    "C10": ("model_checking",
            "TLA+ spec (Reseq: limb-number arithmetic, recursive numbering through blocks) model-checked by TLC; "
            "TLC-enumerated calls replayed on live Acl/AceGroup/AddrGroup objects; traces validated by TLC with limb "
            "arithmetic at Max = 2^32-1",
            "TLC checks on the small instance (every tree shape with <= 4/5 leaves, old numbering, start and step in "
            "-1..13 with Max = 12) that the recursive numbering equals the direct characterisation s, s+d, ..., that "
            "errors arise exactly in the three documented cases, that nothing but numbers changes and that limb "
            "arithmetic equals integer arithmetic; each call is replayed under a low and a high number window "
            "(boundary 2^32-1) on live objects of the three classes, with follow-up calls, duplicate-line histories and "
            "random boundary-aimed histories; TLC (Trace_C10) judges numbers, returned value, exception and unchanged "
            "content after every call.",
            "7 (C10)"),
    "C09": ("model_checking",
            "TLA+ spec (Names: Cisco keyword tables) checked by TLC for closure; complete enumeration of the library's "
            "tables and of every name/number round trip, validated by TLC against the tables",
            "The space is finite: TLC checks the specification's tables for closure (name->number->name->number, one "
            "number per name across platforms, no collision with grammar keywords), and the harness enumerates every "
            "exported table, the splitter vocabulary, every name x platform x version x protocol through Port (both "
            "switch settings, re-parse, in-place platform/version switches), every number (thorough: all 65535) and every "
            "protocol number/name x platform x switches, and every name in an ACE before 'ack log'; TLC (Trace_C09) "
            "compares each observation with Names.tla. exhaustive=true in the thorough tier.",
            "7 (C09)"),
    "C03": ("model_checking",
            "TLA+ spec (AceText reader, AceSem packet semantics and shadow relations) model-checked by TLC over all "
            "pairs x all packets of a reduced universe; TLC-printed pairs replayed on live Ace objects; answers "
            "validated by TLC at full size from the input tokens",
            "TLC proves for every ordered pair of a 298-entry universe (both sides; contiguous and non-contiguous "
            "wildcards, groups with 0..2 members, every port operator incl. empty denotations, flag sets, two actions, "
            "four protocols) against every packet that the symbolic shadow relation equals packet-set containment and "
            "that the documented relation is sound and monotone in the skip options; the related / nearly related pairs "
            "are concretised on both platforms and asked with all skip subsets, with in-place edits of group members "
            "between repeated queries, plus random full-size near-containment pairs; TLC (Trace_Shadow) parses both "
            "entries from the input tokens and judges soundness, monotonicity and skip-order independence.",
            "7 (C03)"),
    "C01": ("model_checking",
            "TLA+ spec (AceText: independent reader / writer of ACE syntax over typed tokens; Names, PortSem, AddrSem) "
            "model-checked by TLC (reader inverts writer); recorded constructions of real Ace objects validated by TLC "
            "from the input tokens",
            "The state space explored for C01 is the input grammar: TLC checks on 30 420 abstract entries x 2 platforms "
            "that the specification's reader inverts its writer and only accepts platform-valid text; the harness "
            "assembles seeded ACE texts over the full-size grammar (all protocol spellings, address spellings incl. "
            "non-contiguous / dirty / foreign, all operators with names of the platform-version table, up to 10 "
            "operands, flags, logs, sequence numbers to 2^32-1, whitespace) and constructs real Ace objects (also by "
            "re-assigning .line on an object that held another entry) for every platform, version table and switch "
            "setting; TLC (Trace_C01) reads the INPUT tokens itself and compares every typed field, the expanded "
            "networks and the meaning / nativeness / switch conformance of the rendered line.",
            "7 (C01)"),
}

NOT_YET = {
}


def main():
    props = [json.loads(l) for l in open(os.path.join(VERIF, "properties.jsonl"))]
    checks, na = [], []
    for p in props:
        pid = p["id"]
        if pid in CHECKS:
            cat, tech, text, ref = CHECKS[pid]
            checks.append(dict(
                property_id=pid,
                quick_cmd=f"./check {pid} --tier quick",
                thorough_cmd=f"./check {pid} --tier thorough",
                evidence_file=f"/verif/evidence/{pid}.json",
                replay_cmd_template=f"./check {pid} --replay {{path}}",
                engine="tlc-spec-conformance",
                level_claimed=dict(category=cat, text=text, design_ref="DESIGN.md section " + ref),
                level_note=TRUST,
                technique=tech,
            ))
        else:
            na.append(dict(property_id=pid, reason=NOT_YET.get(
                pid, "not claimed yet: the specification module and conformance check for this property are still "
                     "being built (see DESIGN.md section 10 for the build order); no technique switch is intended")))
    m = dict(
        version=1,
        setup_cmd="./setup.sh",
        hooks=dict(
            guard="CISCO_ACL_VERIF",
            enable="no source hooks: the library is sequential, its linearisation point is the return of a public "
                   "call, so traces are recorded by the harness around public API calls (CISCO_ACL_VERIF=1 is set in "
                   "the worker processes for any future add-only hook)",
            baseline_off_cmd="cd /repo && /venv/bin/python -m pytest -ra -q -p no:cacheprovider --timeout=900 "
                             "--continue-on-collection-errors",
            source_commits=[],
            add_only=True,
        ),
        engines=[dict(name="tlc-spec-conformance", path="/verif/check",
                      serves_properties=sorted(CHECKS),
                      kind_free_text="explicit TLA+ specification (spec/*.tla) model-checked with TLC; TLC-generated "
                                     "behaviours replayed into the real library and recorded traces of the real "
                                     "library validated by TLC against the same specification at full size")],
        checks=checks,
        not_applicable=na,
        notes="fix: commits in /repo and open findings are listed in /verif/known_findings.json and DESIGN.md section 11.",
    )
    with open(os.path.join(VERIF, "MANIFEST.json"), "w") as f:
        json.dump(m, f, indent=1)
    print(f"MANIFEST.json: {len(checks)} checks, {len(na)} not claimed")


if __name__ == "__main__":
    main()
