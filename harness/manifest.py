"""Regenerates /verif/MANIFEST.json from the table below (run: /venv/bin/python harness/manifest.py)."""
import json
import os

VERIF = os.path.dirname(os.path.dirname(os.path.abspath(__file__)))

TRUST = ("Trusted: TLC/SANY/JVM, CPython, the purely syntactic lexer/concretiser/projection in harness/lex.py, the semantic "
         "conventions of DESIGN.md section 4, and the small-scope step from the exhaustively checked model instance "
         "(W=3/4 address bits, ports 1..6) to the full-size symbolic operators used to judge implementation traces.")

# id -> (category, technique, level text, design ref)
CHECKS = {
    "C05": ("model_checking",
            "TLA+ spec (AddrSem, WildcardObj) model-checked by TLC; TLC-generated histories replayed on live objects; "
            "implementation traces validated by TLC at W=32",
            "TLC proves on the small instance that the symbolic prefix decomposition equals the enumerated address set "
            "(all 4096 / 65536 wildcard pairs) and that no history of New/SetLine/SetLimit/queries leaves a stale memo; "
            "every maximal history TLC enumerates is replayed through address windows on ONE live Wildcard object, plus "
            "all limits 0..30 at k=limit-1,limit,limit+1 and seeded random 32-bit histories, and TLC (Trace_C05, W=32) "
            "judges every recorded step. Exhaustive for the model instance, sampled for the 2^64 real inputs.",
            "7 (C05)"),
    "C08": ("model_checking",
            "TLA+ spec (PortSem, PortObj) model-checked by TLC; TLC-generated histories replayed on live Port objects; "
            "implementation traces validated by TLC with interval arithmetic at PMax=65535",
            "TLC proves on the small instance (ports 1..6, operands 0..7, all 5 operators, all operand tuples up to 3, all "
            "64 subsets) that the interval semantics equals Cisco's set definitions and that every history of the writable "
            "views keeps the three views in agreement and makes self-assignment the identity; TLC-enumerated histories are "
            "replayed through monotone port maps on ONE live Port object, an operand sweep (thorough: every operand "
            "1..65535 for lt/gt) and random tuples are added, and TLC (Trace_C08) judges each recorded step.",
            "7 (C08)"),
    "C13": ("model_checking",
            "TLA+ spec (AddrSem, AddrText, AddrObj) model-checked by TLC; TLC-enumerated operand pairs concretised and "
            "queried on the real classes; answers validated by TLC at W=32 from the input tokens",
            "TLC proves on the small instance that SubW (bit algebra) equals set containment for all 4096/65536 wildcard "
            "pairs and, for all 615 440 operand pairs incl. groups of 0..2 members, that the symbolic exact-containment "
            "operator equals the enumerated one and that the documented list relation is exact without groups and sound "
            "with them; every generated pair is embedded through address windows, spelled natively and foreign on both "
            "platforms and asked through subnet_of / in-member / in-group, with in-place member edits between repeated "
            "queries; TLC (Trace_C13) parses the operand meaning from the input tokens and judges every answer.",
            "7 (C13)"),
    "C14": ("model_checking",
            "TLA+ spec (Collapse: postcondition + the work-list algorithm as a step function) model-checked by TLC incl. "
            "termination; TLC-enumerated input lists concretised and run through both collapse functions; results "
            "validated by TLC at W=32",
            "TLC explores the work-list algorithm from every list of <= 3 (quick) / 4 (thorough) prefixes over 3 bits: it "
            "terminates (liveness under weak fairness), conserves the covered set at every step and ends in the "
            "postcondition, and the symbolic union test used at full size equals the enumerated union; every such list "
            "is embedded at several offsets, spelled per class/platform and collapsed by the real code, together with "
            "random 32-bit lists, non-contiguous and foreign-type inputs; TLC (Trace_C14) decides set equality, length "
            "bound, order, notes, class/platform and the refusals.",
            "7 (C14)"),
    "C10": ("model_checking",
            "TLA+ spec (Reseq: limb-number arithmetic, recursive numbering through blocks) model-checked by TLC; "
            "TLC-enumerated calls replayed on live Acl/AceGroup/AddrGroup objects; traces validated by TLC with limb "
            "arithmetic at Max = 2^32-1",
            "TLC checks on the small instance (every tree shape with <= 4/5 leaves, old numbering, start and step in "
            "-1..13 with Max = 12) that the recursive numbering equals the direct characterisation s, s+d, ..., that "
            "errors arise exactly in the three documented cases, that nothing but numbers changes and that limb "
            "arithmetic equals integer arithmetic; each call is replayed under a low and a high number window "
            "(boundary 2^32-1) on live objects of the three classes, with follow-up calls, duplicate-line histories and "
            "random boundary-aimed histories; TLC (Trace_C10) judges numbers, returned value, exception and unchanged "
            "content after every call.",
            "7 (C10)"),
    "C09": ("model_checking",
            "TLA+ spec (Names: Cisco keyword tables) checked by TLC for closure; complete enumeration of the library's "
            "tables and of every name/number round trip, validated by TLC against the tables",
            "The space is finite: TLC checks the specification's tables for closure (name->number->name->number, one "
            "number per name across platforms, no collision with grammar keywords), and the harness enumerates every "
            "exported table, the splitter vocabulary, every name x platform x version x protocol through Port (both "
            "switch settings, re-parse, in-place platform/version switches), every number (thorough: all 65535) and every "
            "protocol number/name x platform x switches, and every name in an ACE before 'ack log'; TLC (Trace_C09) "
            "compares each observation with Names.tla. exhaustive=true in the thorough tier.",
            "7 (C09)"),
    "C03": ("model_checking",
            "TLA+ spec (AceText reader, AceSem packet semantics and shadow relations) model-checked by TLC over all "
            "pairs x all packets of a reduced universe; TLC-printed pairs replayed on live Ace objects; answers "
            "validated by TLC at full size from the input tokens",
            "TLC proves for every ordered pair of a 298-entry universe (both sides; contiguous and non-contiguous "
            "wildcards, groups with 0..2 members, every port operator incl. empty denotations, flag sets, two actions, "
            "four protocols) against every packet that the symbolic shadow relation equals packet-set containment and "
            "that the documented relation is sound and monotone in the skip options; the related / nearly related pairs "
            "are concretised on both platforms and asked with all skip subsets, with in-place edits of group members "
            "between repeated queries, plus random full-size near-containment pairs; TLC (Trace_Shadow) parses both "
            "entries from the input tokens and judges soundness, monotonicity and skip-order independence.",
            "7 (C03)"),
    "C01": ("model_checking",
            "TLA+ spec (AceText: independent reader / writer of ACE syntax over typed tokens; Names, PortSem, AddrSem) "
            "model-checked by TLC (reader inverts writer); recorded constructions of real Ace objects validated by TLC "
            "from the input tokens",
            "The state space explored for C01 is the input grammar: TLC checks on 30 420 abstract entries x 2 platforms "
            "that the specification's reader inverts its writer and only accepts platform-valid text; the harness "
            "assembles seeded ACE texts over the full-size grammar (all protocol spellings, address spellings incl. "
            "non-contiguous / dirty / foreign, all operators with names of the platform-version table, up to 10 "
            "operands, flags, logs, sequence numbers to 2^32-1, whitespace) and constructs real Ace objects (also by "
            "re-assigning .line on an object that held another entry) for every platform, version table and switch "
            "setting; TLC (Trace_C01) reads the INPUT tokens itself and compares every typed field, the expanded "
            "networks and the meaning / nativeness / switch conformance of the rendered line.",
            "7 (C01)"),
    "C02": ("model_checking",
            "TLA+ spec of the ACL as an ordered rule list with its public operations (AclSem over AceSem/AceText/Reseq) model-checked by TLC on a small universe with every packet evaluated; histories of public calls on ONE live Acl object validated step by step by TLC (Trace_Acl) at full size",
            "TLC checks on all rule lists of <= 3 (quick) / 4 (thorough) items over an alphabet with duplicates, covers, multi-port eq/neq entries, a group with members, headings and remarks that the conversion function (port splitting + respelling + regrouping) preserves every packet's decision; seeded histories dominated by platform changes in both directions (there, back, there again) on full-size ACLs are replayed on one live object and TLC predicts each post-state from the observed pre-state: same entries and meaning in order (split entries adjacent), remarks, numbers, name, group members, identifiers and notes kept, every rendered line read back by the specification's own reader must mean what the fields say and be native syntax of the target platform.",
            "7 (C02)"),
    "C04": ("model_checking",
            "TLA+ spec of the ACL as an ordered rule list with its public operations (AclSem over AceSem/AceText/Reseq) model-checked by TLC on a small universe with every packet evaluated; histories of public calls on ONE live Acl object validated step by step by TLC (Trace_Acl) at full size",
            "TLC proves on the small universe that removing the shadowed entries changes no packet's decision, removes only ACEs, keeps order and is idempotent; on full-size histories TLC checks that the result is the original list with entries removed, every removed entry is an ACE covered (symbolic exact cover, proved equal to packet-set containment by MC_AceSem) by an earlier entry of the same action, every reported entry was removed and is sound, remarks / numbers / grouping of the rest are untouched, the report equals shading() just before, and a second removal finds nothing.",
            "7 (C04)"),
    "C11": ("model_checking",
            "TLA+ spec of the ACL as an ordered rule list with its public operations (AclSem over AceSem/AceText/Reseq) model-checked by TLC on a small universe with every packet evaluated; histories of public calls on ONE live Acl object validated step by step by TLC (Trace_Acl) at full size",
            "Pair level as C03 plus exactness: for group-free entries with non-empty port sets the answer equals symbolic exact cover and not a skipped kind, for every skip subset (lemma L_LibExact over all pairs x packets). Report level: histories of shading()/shadow_of() on group-free lists; every reported pair must be a real shadow and, when the lines are distinct, the report must equal the first-top attribution computed by AclSem.",
            "7 (C11)"),
    "C15": ("model_checking",
            "TLA+ spec of the ACL as an ordered rule list with its public operations (AclSem over AceSem/AceText/Reseq) model-checked by TLC on a small universe with every packet evaluated; histories of public calls on ONE live Acl object validated step by step by TLC (Trace_Acl) at full size",
            "TLC proves on the small universe that grouping/ungrouping conserve the entries (and order and decisions when headings are distinct) and the TCAM estimate; histories of group / ungroup / sort / permute / reverse / resequence / tcam_count / in-place re-pointing of group addresses are replayed on a live object and TLC predicts the post-state (bucket structure, entry order, identities) and the estimate.",
            "7 (C15)"),
    "C16": ("model_checking",
            "TLA+ spec of the ACL as an ordered rule list with its public operations (AclSem over AceSem/AceText/Reseq) model-checked by TLC on a small universe with every packet evaluated; histories of public calls on ONE live Acl object validated step by step by TLC (Trace_Acl) at full size",
            "Histories with copy() and Acl(**data()) followed by mutations of the twin (platform, resequence, pop, notes, members, ports, line, shadow removal, sort) and in-place transformations of the source: TLC checks equality of the twin (entries, numbers, structure, settings, text, data digest, notes), disjoint identifiers, no shared mutable sub-object (identity scan by the harness), an unchanged source after every twin mutation, and identifier / note stability of every entry an in-place transformation does not replace by a split.",
            "7 (C16)"),
    "C17": ("model_checking",
            "TLA+ spec of the ACL as an ordered rule list with its public operations (AclSem over AceSem/AceText/Reseq) model-checked by TLC on a small universe with every packet evaluated; histories of public calls on ONE live Acl object validated step by step by TLC (Trace_Acl) at full size",
            "Random histories of 2..25 operations over the whole alphabet (platform, switches, resequence, group/ungroup, sort/reverse/permute/insert/append/pop, in-place edits, copy, export-import, re-parse, shading, shadow removal, port splitting, tcam, notes) on one live object; after every step TLC checks internal consistency (every rendered line read back by the specification means what the typed fields say, is native, carries the number; the ACL text is header + entry lines and parses back to itself) and that the post-state is the one the reference model predicts from the observed pre-state; this check owns the clauses of all operation properties.",
            "7 (C17)"),
    "C19": ("model_checking",
            "TLA+ spec of the ACL as an ordered rule list with its public operations (AclSem over AceSem/AceText/Reseq) model-checked by TLC on a small universe with every packet evaluated; histories of public calls on ONE live Acl object validated step by step by TLC (Trace_Acl) at full size",
            "TLC proves on the small universe that splitting keeps every packet's decision when no multi-port neq is involved (and that the multi-port neq split does change a decision: deviation run); histories dominated by ungroup_ports() and conversion to NX-OS on IOS lists with eq/neq entries of 1..4 ports (incl. a port listed twice) are validated: split entries stand where the original stood in source-major order with one port per side and every other field kept, untouched entries keep their identity; a split of a multi-port neq is reported as the known finding F1.",
            "7 (C19)"),
    "C06": ("model_checking",
            "TLA+ readers / writers (AceText, AddrText, PortSem, Names) model-checked by TLC (reader inverts writer, tables "
            "closed); objects of every exported class built, rendered and re-parsed twice; texts and their meaning judged by "
            "TLC (Trace_C06, Trace_C01)",
            "The explored space is the input grammar: TLC checks the reader/writer and table-closure lemmas; the harness builds "
            "objects of every exported class (Port, Protocol, Option, Wildcard, Address, AddressAg, Remark, Ace, AceGroup, Acl "
            "extended/standard with indentation 1..3 and names, AddrGroup with member numbers, acls()/addrgroups()) from native "
            "and foreign text on both platforms, all version tables and switch settings, renders them and rebuilds them twice; "
            "TLC requires the strict text+data fixed point for native inputs, stability from the first re-parse for foreign "
            "ones, and that the rendered text - read by the specification - is native and means what the input meant.",
            "7 (C06)"),
    "C07": ("model_checking",
            "TLA+ spec (Config: sections, Extract, MembersFor) model-checked by TLC for insensitivity to unrelated sections; "
            "TLC-enumerated and random configurations rendered to text and run through acls()/addrgroups(); results "
            "validated by TLC, which classifies the sections from their tokens itself",
            "TLC checks on all configurations of <= 4 sections over an alphabet (two ACLs, a group defined once or twice, "
            "interfaces binding different ACLs in/out, noise) that extraction is unchanged by swapping unrelated sections and "
            "inserting noise, returns each list once and honours the name filter; every printed configuration and seeded "
            "random configurations of 3..14 shuffled sections are rendered with indentation 1..3 and comment lines on both "
            "platforms and passed to acls() (all / name filters) and addrgroups(); TLC (Trace_C07) compares names, types, "
            "entries in configuration order (by meaning), inbound/outbound interface sets and attached group members "
            "(IOS members read as net masks) with Config.Extract.",
            "7 (C07)"),
    "C12": ("model_checking",
            "TLA+ spec (Lines: kinds of body lines, outcome of a construction, accounting identity) model-checked by TLC; "
            "TLC-enumerated kind sequences concretised with real lines and built as Acl / AceGroup / AddrGroup with all log "
            "records captured; TLC classifies each body line from its tokens and accounts for it",
            "TLC checks for every sequence of <= 5 line kinds that items + reported + ignorable = body lines and that a "
            "construction fails only where documented; every kind sequence of length <= 4 is concretised repeatedly (valid "
            "ACEs/remarks, the three ignorable prefixes, over-limit wildcards, 27 sorts of junk incl. near-keywords and lines "
            "that only look like an ACE) plus random mixes of 5..10 lines on both platforms; TLC (Trace_C12) requires every "
            "valid line as an item in line order, no item without a line, every other non-ignorable line reported in a log "
            "record (or represented by an item), failure only with an over-limit wildcard (ACL) or no valid member (group).",
            "7 (C12)"),
    "C18": ("model_checking",
            "TLA+ spec (RangeGen: request language, refusals, exact-cover postcondition over interval semantics) with the "
            "interval and reader lemmas model-checked by TLC; seeded requests run through range_ports()/range_protocols(); "
            "output lines parsed and judged by TLC at PMax=65535",
            "The lemmas the postcondition rests on (interval semantics = sets for every operator/operand tuple, Canon/union, "
            "reader inverts writer) are model-checked; seeded requests (singles and ranges that are adjacent, overlapping, "
            "repeated, near 1 and 65535) x side(s) x template operator (none, eq, and the refused gt / lt / range) x tcp/udp x "
            "port_count 0..4 x both range policies x platform x names/numbers are run; TLC (Trace_C18) parses every output "
            "line and requires validity for the platform, equality with the template outside the generated field, the "
            "ports-per-line limit, the range-versus-eq policy, exact equality of the union of denotations with the "
            "requested set per side, and refusal exactly where documented; protocols likewise (one line per number).",
            "7 (C18)"),
    "C20": ("exploration",
            "TLA+ outcome specification (Outcome) with TLC enumerating the token soups tried; every call of every constructor "
            "and config-level function on those inputs recorded with its outcome and the re-parse of what it returned; "
            "outcomes validated by TLC (Trace_C20)",
            "Enumeration and sampling of the string space, judged against the outcome alphabet: every sequence of <= 3 "
            "(quick) / 4 (thorough) tokens over a 16-token vocabulary (TLC enumerates them), random soups of 4..9 tokens over "
            "40 tokens, valid lines truncated / permuted / duplicated / with a token replaced, multi-line ACLs of such lines, "
            "whole configurations with tabs, irregular and decreasing indents, an indented first line and comment lines, and "
            "blank inputs, for all 11 classes and acls/aces/addrgroups on asa/ios/nxos; each call runs under a watchdog inside "
            "the worker, a hard deadline outside it and an address-space limit; TLC requires outcome in {returned, "
            "ValueError family, TypeError} and that every returned object's text is accepted again. No completeness over "
            "strings is claimed; 'never endless' is decided up to the watchdog.",
            "7 (C20)"),
}

NOT_YET = {
}


RECORDED = {"C01", "C02", "C03", "C04", "C05", "C06", "C08", "C10", "C11", "C13", "C14", "C15", "C16", "C17", "C18", "C19"}   # keep in step with check.RECORDED


APALACHE = {
    "C08": "The interval algebra that judges port sets at full size (IvSubset, Compl, the lt / gt / range intervals) is also proved to be exactly set algebra on 1..65535 by Apalache (symbolic, lists of up to 3 intervals, complete by explicit witnesses, spec/apalache/PortLemma.tla).",
    "C10": "The limb arithmetic the trace module relies on is also proved equal to integer arithmetic at the real base 65536 by Apalache (symbolic, spec/apalache/LimbLemma.tla).",
    "C13": "The bit algebra SubW that judges containment at full size is also proved to be exactly set containment at W = 32 by Apalache (symbolic, sound for every address and complete by an explicit witness, spec/apalache/WildLemma.tla).",
}


def main():
    props = [json.loads(l) for l in open(os.path.join(VERIF, "properties.jsonl"))]
    checks, na = [], []
    for p in props:
        pid = p["id"]
        if pid in CHECKS:
            cat, tech, text, ref = CHECKS[pid]
            if pid in APALACHE:
                text += " " + APALACHE[pid]
            if pid in RECORDED:
                tech += "; executions recorded from the repository's own test-suite (pytest plugin harness/pytrace.py, no source change) validated by the same trace modules"
                text += (" In addition the calls the repository's own 327 tests make (Ace constructions, shadow_of queries, "
                         "Port / Wildcard histories, Acl operations) are recorded by a pytest plugin and judged by the same "
                         "TLC trace modules (DESIGN.md section 5.3b).")
            checks.append(dict(
                property_id=pid,
                quick_cmd=f"./check {pid} --tier quick",
                thorough_cmd=f"./check {pid} --tier thorough",
                evidence_file=f"/verif/evidence/{pid}.json",
                replay_cmd_template=f"./check {pid} --replay {{path}}",
                engine="tlc-spec-conformance",
                level_claimed=dict(category=cat, text=text, design_ref="DESIGN.md section " + ref),
                level_note=TRUST,
                technique=tech,
            ))
        else:
            na.append(dict(property_id=pid, reason=NOT_YET.get(
                pid, "not claimed yet: the specification module and conformance check for this property are still "
                     "being built (see DESIGN.md section 10 for the build order); no technique switch is intended")))
    m = dict(
        version=1,
        setup_cmd="./setup.sh",
        hooks=dict(
            guard="CISCO_ACL_VERIF",
            enable="no source hooks: the library is sequential, its linearisation point is the return of a public "
                   "call, so traces are recorded by the harness around public API calls (CISCO_ACL_VERIF=1 is set in "
                   "the worker processes for any future add-only hook)",
            baseline_off_cmd="cd /repo && /venv/bin/python -m pytest -ra -q -p no:cacheprovider --timeout=900 "
                             "--continue-on-collection-errors",
            source_commits=[],
            add_only=True,
        ),
        engines=[dict(name="tlc-spec-conformance", path="/verif/check",
                      serves_properties=sorted(CHECKS),
                      kind_free_text="explicit TLA+ specification (spec/*.tla) model-checked with TLC; TLC-generated "
                                     "behaviours replayed into the real library and recorded traces of the real "
                                     "library validated by TLC against the same specification at full size")],
        checks=checks,
        not_applicable=na,
        notes="fix: commits in /repo and open findings are listed in /verif/known_findings.json and DESIGN.md section 11.",
    )
    with open(os.path.join(VERIF, "MANIFEST.json"), "w") as f:
        json.dump(m, f, indent=1)
    print(f"MANIFEST.json: {len(checks)} checks, {len(na)} not claimed")


if __name__ == "__main__":
    main()
