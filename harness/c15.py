"""C15 - grouping, ungrouping and sorting never lose, duplicate or split entries (histories on a live Acl; see harness/aclhist.py, spec AclSem.tla, Trace_Acl.tla)."""
import random

from harness import core, aclhist

PROP = "C15"
TRACE_MODULES = ["Trace_Acl"]
WEIGHTS = dict(EditEntry=2, Group=6, Ungroup=3, Sort=5, Permute=4, Reverse=2, Resequence=5, TcamCount=4, Insert=1, Pop=1)


def run(tier, seed):
    rng = random.Random(seed * 217645177 + 15)
    mcs = [core.mc("MC_Acl", "MC_Acl" if tier == "quick" else "MC_Acl_4"), core.mc("MC_Acl", "MC_Acl_deep")]
    n = 1800 if tier == "quick" else 15000
    jobs = [aclhist.make_history(rng, t, WEIGHTS, nops=rng.randint(2, 9)) for t in range(1, n + 1)]
    aclhist.fill_permutations(rng, jobs)
    tjobs, gen = aclhist.tlc_histories(tier, seed, len(jobs) + 1, want={"Group", "Ungroup", "Reverse"}, cap=1500 if tier == "quick" else 20000)
    jobs += [j for j in tjobs if j["lines"]]
    jobs += aclhist.dup_histories(rng, 300 if tier == "quick" else 5000, max(j["tid"] for j in jobs) + 1)
    return aclhist.run_histories("C15", jobs, tier, mcs, "behaviours enumerated by TLC (MC_Acl_gen: every rule list of <= 3 items x 2 operations) replayed on a live object, plus a seeded operation mix of group / ungroup / sort / permute / reverse / resequence / tcam_count", gens=[gen])


def replay(path):
    return aclhist.replay_history(path)
