"""C17 - any sequence of public operations keeps an ACL consistent with the reference model (AclSem / Trace_Acl)."""
import random

from harness import core, aclhist

PROP = "C17"
TRACE_MODULES = ["Trace_Acl"]
WEIGHTS = dict(SetType=1, EditEntry=1, EditMembers=1, SetPlatform=4, SetPortNr=2, SetProtocolNr=2, UngroupPorts=2, Resequence=3, Group=3, Ungroup=2, Sort=2, Reverse=1,
               Permute=1, Pop=1, Append=1, Insert=1, TcamCount=1, DeleteNote=1, Copy=2, DataRoundTrip=1, Reparse=2, Shading=1,
               ShadowOf=1, DeleteShadow=2)


def run(tier, seed):
    rng = random.Random(seed * 141650939 + 17)
    mcs = [core.mc("MC_Acl", "MC_Acl" if tier == "quick" else "MC_Acl_4"), core.mc("MC_Acl", "MC_Acl_deep"),
           core.mc("MC_Acl", "MC_Acl_deviation", expect_violation="P_C19_DeviationExists")]
    n = 1500 if tier == "quick" else 12000
    jobs = [aclhist.make_history(rng, t, WEIGHTS, nops=rng.randint(2, 10 if tier == "quick" else 25)) for t in range(1, n + 1)]
    aclhist.fill_permutations(rng, jobs)
    tjobs, gen = aclhist.tlc_histories(tier, seed, len(jobs) + 1, want=None, cap=1500 if tier == "quick" else 20000)
    jobs += [j for j in tjobs if j["lines"]]
    jobs += aclhist.dup_histories(rng, 150 if tier == "quick" else 3000, max(j["tid"] for j in jobs) + 1)
    return aclhist.run_histories("C17", jobs, tier, mcs,
                                 "operations drawn from the whole alphabet (platform, switches, resequence, group/ungroup, sort/"
                                 "reverse/permute/insert/append/pop, copy, export-import, re-parse, shading, shadow removal, port "
                                 "splitting, tcam, notes), 2..25 per history",
                                 owners={"C02", "C04", "C06", "C10", "C11", "C15", "C16", "C19"}, gens=[gen])


def replay(path):
    return aclhist.replay_history(path)
