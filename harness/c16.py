"""C16 - copy()/data() rebuild an equal, independent object; ids and notes are stable (histories on a live Acl; see harness/aclhist.py, spec AclSem.tla, Trace_Acl.tla)."""
import random

from harness import core, aclhist

PROP = "C16"
TRACE_MODULES = ["Trace_Acl"]
WEIGHTS = dict(Copy=6, DataRoundTrip=4, SetPlatform=3, SetPortNr=2, SetProtocolNr=2, Resequence=2, Sort=2, Group=2, Ungroup=1, UngroupPorts=1)


def run(tier, seed):
    rng = random.Random(seed * 236887691 + 16)
    mcs = [core.mc("MC_Acl", "MC_Acl" if tier == "quick" else "MC_Acl_4")]
    n = 1500 if tier == "quick" else 12000
    jobs = [aclhist.make_history(rng, t, WEIGHTS, nops=rng.randint(2, 8)) for t in range(1, n + 1)]
    aclhist.fill_permutations(rng, jobs)
    return aclhist.run_histories("C16", jobs, tier, mcs, "operation mix of copy / export-import each followed by a mutation of the twin, and in-place transformations, with user notes on every entry")


def replay(path):
    return aclhist.replay_history(path)
