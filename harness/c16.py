"""C16 - copy()/data() rebuild an equal, independent object; ids and notes are stable (histories on a live Acl; see harness/aclhist.py, spec AclSem.tla, Trace_Acl.tla)."""
import random

from harness import core, aclhist, c06

PROP = "C16"
TRACE_MODULES = ["Trace_Acl", "Trace_C06"]
WEIGHTS = dict(SetType=1, Copy=6, DataRoundTrip=4, SetPlatform=3, SetPortNr=2, SetProtocolNr=2, Resequence=2, Sort=2, Group=2, Ungroup=1, UngroupPorts=1)


def run(tier, seed):
    rng = random.Random(seed * 236887691 + 16)
    mcs = [core.mc("MC_Acl", "MC_Acl" if tier == "quick" else "MC_Acl_4"), core.mc("MC_Acl", "MC_Acl_deep")]
    n = 1000 if tier == "quick" else 12000
    jobs = [aclhist.make_history(rng, t, WEIGHTS, nops=rng.randint(2, 8)) for t in range(1, n + 1)]
    aclhist.fill_permutations(rng, jobs)
    res = aclhist.run_histories("C16", jobs, tier, mcs, "operation mix of copy / export-import each followed by a mutation of the twin, and in-place transformations, with user notes on every entry")
    ol, ojobs, oevents, ovstats = c06.object_level(random.Random(seed * 7 + 1), 2500 if tier == "quick" else 60000, "C16.")
    res["verdicts"] += ol
    cov = res["coverage"]
    cov["traces_validated_against_impl"] += len(ojobs)
    cov["evaluations"] += len(oevents)
    cov["distinct_nontrivial"] += len({(j["cls"], j["text"]) for j in ojobs})
    cov["rule"] += " || OBJECT LEVEL: copy() and Class(**data()) of single objects of every exported class followed by mutations of the twins; identifier and note across single-object conversion (Trace_C06)"
    cov["object_level"] = dict(trace_validation=ovstats, jobs=len(ojobs))
    return res


def replay(path):
    import json
    with open(path) as f:
        r = json.load(f)
    if "ops" in r["case"]:
        return aclhist.replay_history(path)
    core._init_worker(core.REPO)
    evs = c06.exec_job(r["case"])
    verdicts, _ = core.validate("Trace_C06", evs, nchunks=1)
    mine = [v for v in verdicts if v["clause"].startswith(PROP + ".")]
    for v in mine:
        print("REPLAY verdict:", v)
    return 1 if mine else 0
