"""C14 - collapsing addresses preserves the covered address set exactly.

spec: Collapse.tla (Post + the work-list algorithm as StepF / CollapseF)
mc:   MC_Collapse: every list of <= 3 (quick) / 4 (thorough) prefixes over W=3 terminates, conserves the union
      at every step and ends in Post; symbolic union test = enumerated union
bind: each TLC-printed list through address windows, both classes, both platforms, random spellings and notes;
      random 32-bit lists (siblings, chains of merges, any, duplicates); refusals (non-contiguous, foreign type).
      Judge: Trace_C14 at W=32 (Post and equality with CollapseF).
"""
from __future__ import annotations

import json
import random

from harness import core, lex
from harness.c13 import spellings_ace, spellings_member, clean

PROP = "C14"
TRACE_MODULES = ["Trace_C14"]


def exec_job(job):
    from cisco_acl import Address, AddressAg, address, address_ag
    cls = Address if job["cls"] == "Address" else AddressAg
    fn = address.collapse if job["cls"] == "Address" else address_ag.collapse
    e = dict(tid=job["tid"], i=0, act="Collapse", cls=job["cls"], plat=job["plat"],
             inp=[lex.lex(t) for t in job["texts"]], foreign=bool(job.get("foreign")), exc="", out=[],
             notes_empty=True, same_kind=True)
    try:
        objs = [cls(t, platform=job["plat"], note=job.get("note", "")) for t in job["texts"]]
    except Exception as ex:  # noqa
        e["exc"] = "Build:" + core.exc_name(ex)
        return [e]
    if job.get("foreign") == "str":
        objs.insert(job.get("fpos", 0) % (len(objs) + 1), job["texts"][0] if job["texts"] else "10.0.0.0/8")
    elif job.get("foreign") == "other":
        other = AddressAg if job["cls"] == "Address" else Address
        objs.insert(job.get("fpos", 0) % (len(objs) + 1), other("host 10.0.0.1", platform=job["plat"]))
    before = [o.line for o in objs if hasattr(o, "line")]
    try:
        res = fn(objs)
        e["out"] = [lex.lex(o.line) for o in res]
        e["notes_empty"] = all(o.note in ("", None) for o in res)
        e["same_kind"] = all(type(o) is cls and o.platform == job["plat"] for o in res)
        # the inputs themselves must be left alone
        if [o.line for o in objs if hasattr(o, "line")] != before:
            e["same_kind"] = False
    except Exception as ex:  # noqa
        e["exc"] = core.exc_name(ex)
    events = [e]
    # history: one of the input objects is given another address, then the SAME objects are collapsed again
    for k, (idx, text) in enumerate(job.get("edits") or [], start=1):
        e2 = dict(e, i=k, exc="", out=[], notes_empty=True, same_kind=True)
        try:
            mine = [o for o in objs if type(o) is cls]
            mine[idx % len(mine)].line = text
            e2["inp"] = [lex.lex(o.line) for o in mine]
            before = [o.line for o in objs if hasattr(o, "line")]
            res = fn(objs)
            e2["out"] = [lex.lex(o.line) for o in res]
            e2["notes_empty"] = all(o.note in ("", None) for o in res)
            e2["same_kind"] = all(type(o) is cls and o.platform == job["plat"] for o in res) and [o.line for o in objs if hasattr(o, "line")] == before
        except Exception as ex:  # noqa
            e2["exc"] = core.exc_name(ex)
        events.append(e2)
    return events


def pfx_wild(bits, ln):
    return dict(base=[b if i < ln else 0 for i, b in enumerate(bits)], mask=[0 if i < ln else 1 for i in range(32)])


def spell(rng, w, cls, plat):
    s = (spellings_ace if cls == "Address" else spellings_member)(clean(w), plat)
    return rng.choice(s) if s else None


def from_lists(rng, lists, tier, tid0):
    jobs, t = [], tid0
    offs = [(8, 0x0A000000), (29, 0xC0A80100), (0, 0)] + ([(20, 0xAC100000), (13, 0x64400000)] if tier == "thorough" else [])
    for L in lists:
        for off, bg in offs:
            for cls in ("Address", "AddressAg"):
                for plat in ("ios", "nxos"):
                    texts = []
                    for p in L["input"]:
                        bits = lex.embed_bits(p["bits"], off, bg, 0)
                        w = pfx_wild(bits, off + p["len"])
                        texts.append(spell(rng, w, cls, plat))
                    if any(x is None for x in texts):
                        continue
                    jobs.append(dict(tid=t, cls=cls, plat=plat, texts=texts, note=rng.choice(["", "n1"]), origin="tlc"))
                    t += 1
    return jobs


def random_lists(rng, n, tid0):
    jobs, t = [], tid0
    for _ in range(n):
        cls, plat = rng.choice(["Address", "AddressAg"]), rng.choice(["ios", "nxos"])
        base = rng.getrandbits(32)
        ln0 = rng.randint(1, 30)
        nets = []
        for _k in range(rng.randint(0, 9)):
            r = rng.random()
            if nets and r < 0.35:      # sibling of an existing one -> merge chains
                bits, ln = rng.choice(nets)
                if ln == 0:
                    continue
                b2 = list(bits)
                b2[ln - 1] ^= 1
                nets.append((b2, ln))
            elif nets and r < 0.5:     # subnet / supernet / duplicate of an existing one
                bits, ln = rng.choice(nets)
                ln2 = min(32, max(0, ln + rng.choice([-2, -1, 0, 1, 2])))
                b2 = [b if i < ln2 else 0 for i, b in enumerate(bits)]
                if ln2 > ln:
                    b2[ln2 - 1] = rng.randint(0, 1)
                nets.append((b2, ln2))
            elif r < 0.55:
                nets.append(([0] * 32, 0))
            else:
                ln = min(32, max(0, ln0 + rng.choice([0, 0, 1, 1, 2, 3, -1])))
                v = (base ^ (rng.getrandbits(4) << (32 - ln) if ln <= 28 else rng.getrandbits(2)))
                bits = [b if i < ln else 0 for i, b in enumerate(lex.int_bits(v & 0xFFFFFFFF))]
                nets.append((bits, ln))
        origin = "random"
        if rng.random() < 0.12:       # cascade: every piece of one block two or three levels down, in any order, plus a few of the
            ln = rng.randint(0, 28)   # intermediate blocks that the pieces will rebuild (the work list meets them again)
            top = [b if i < ln else 0 for i, b in enumerate(lex.int_bits(base))]
            depth = rng.choice([2, 2, 3])
            nets = []
            for v in range(2 ** depth):
                bits = list(top)
                for j in range(depth):
                    bits[ln + j] = (v >> (depth - 1 - j)) & 1
                nets.append((bits, ln + depth))
            rng.shuffle(nets)
            for _k in range(rng.randint(0, 2)):
                lv = rng.randint(1, depth - 1)
                bits = list(top)
                for j in range(lv):
                    bits[ln + j] = rng.randint(0, 1)
                nets.insert(rng.randint(0, len(nets)), (bits, ln + lv))
            if rng.random() < 0.3:
                nets.pop(rng.randrange(len(nets)))
            origin = "cascade"
        texts = [spell(rng, pfx_wild(b, ln), cls, plat) for b, ln in nets]
        if any(x is None for x in texts):
            continue
        job = dict(tid=t, cls=cls, plat=plat, texts=texts, note=rng.choice(["", "x"]), origin=origin)
        r = rng.random()
        if r < 0.06:
            job["foreign"], job["fpos"], job["origin"] = rng.choice(["str", "other"]), rng.randint(0, 9), "foreign"
        elif r < 0.14 and not (cls == "AddressAg" and plat == "ios"):
            texts.insert(rng.randint(0, len(texts)), rng.choice(["10.0.0.0 0.0.1.3", "10.1.2.0 0.255.0.255", "1.0.0.1 0.0.0.254"]))
            if rng.random() < 0.3:
                texts.insert(0, "any" if cls == "Address" else "0.0.0.0/0")      # everything is covered already - the wildcard is still refused
            job["origin"] = "non-contiguous"
        jobs.append(job)
        t += 1
    return jobs


def run(tier, seed):
    rng = random.Random(seed * 32452843 + 14)
    mcs = [core.mc("MC_Collapse", "MC_Collapse" if tier == "quick" else "MC_Collapse_L4")]
    lists, gen = core.generate("MC_Collapse", "MC_Collapse_gen" if tier == "quick" else "MC_Collapse_gen_L4")
    lists = core.cap(lists, 1500 if tier == "quick" else 20000, random.Random(seed + 4))
    jobs = from_lists(rng, lists, tier, 1)
    jobs += random_lists(rng, 3000 if tier == "quick" else 60000, len(jobs) + 1)
    # histories on the input objects: a line is re-assigned (to the text of another element of some job) and the call repeated
    for j in jobs:
        if j["texts"] and not j.get("foreign") and rng.random() < 0.2:
            j["edits"] = [(rng.randrange(len(j["texts"])), rng.choice([t for jj in rng.sample(jobs, 5) if jj["cls"] == j["cls"] and jj["plat"] == j["plat"] for t in jj["texts"]] or j["texts"]))
                          for _ in range(rng.randint(1, 2))]
    ev_lists = core.pmap(exec_job, jobs)
    events = [e for evs in ev_lists for e in evs]
    verdicts, vstats = core.validate("Trace_C14", events)
    by_tid = {j["tid"]: (j, evs) for j, evs in zip(jobs, ev_lists)}
    out = []
    for v in verdicts:
        j, evs = by_tid[v["tid"]]
        out.append(dict(clause=v["clause"], features=dict(cls=j["cls"], plat=j["plat"], origin=j["origin"]), case=j, events=evs))
    distinct = {json.dumps([j["cls"], j["plat"], j["texts"], j.get("foreign")]) for j in jobs if len(j["texts"]) >= 2}
    cov = dict(
        states=sum(m.get("states", 0) for m in mcs) + gen["states"], transitions=sum(m.get("states", 0) for m in mcs),
        distinct_states=sum(m.get("distinct", 0) for m in mcs),
        traces_validated_against_impl=len(jobs), evaluations=len(events), distinct_nontrivial=len(distinct),
        rule="one trace = one call of address.collapse / address_ag.collapse on freshly built objects; inputs: the "
             "lists TLC prints in MC_Collapse_gen (all lists of <= 3 or 4 prefixes over 3 bits, capped by a seeded "
             "sample) embedded at several offsets in each class/platform with a random native or foreign spelling "
             "per element, plus seeded random 32-bit lists with siblings, nested, duplicate and 0/0 elements, lists "
             "containing a non-contiguous wildcard (also behind an 'any'), lists containing a foreign object, cascade lists "
             "(every piece of a block two or three levels down plus intermediate blocks), and histories (a line re-assigned "
             "on one input object, same objects collapsed again); non-trivial = at least two "
             "elements; distinct = distinct (class, platform, texts)",
        samples=[dict(job=jobs[i], events=ev_lists[i]) for i in (0, len(jobs) // 2, len(jobs) - 1)],
        model_checking=mcs, generation=gen, trace_validation=vstats, exhaustive=False,
        checker_cmd="tlc MC_Collapse (PostHolds, Conserve, Bounded, L_SameUnion, Terminates); tlc Trace_C14 (W=32)",
    )
    return dict(verdicts=out, coverage=cov, level="model_checking",
                assumptions=["result order 'sorted' is read as non-decreasing by (network address, prefix length); the "
                             "library can return the same network twice (e.g. [A, sibling(A), supernet]) which Post allows",
                             "address-group operands (object-group with members) are outside C14's domain"])


def replay(path):
    with open(path) as f:
        r = json.load(f)
    core._init_worker(core.REPO)
    evs = exec_job(r["case"])
    verdicts, _ = core.validate("Trace_C14", evs, nchunks=1)
    for v in verdicts:
        print("REPLAY verdict:", v)
    print("REPLAY events:", len(evs))
    return 1 if verdicts else 0
