"""Executions recorded from the repository's own test-suite (harness/pytrace.py), judged by the trace modules.

This is the code -> spec direction on executions nobody in /verif chose: every Ace construction, shadow_of query, Port and
Wildcard history that tests/ performs is an event of the same format as the generated drivers', validated by the same
TLC trace modules.  A change that the tests exercise but whose assertions are too weak to notice is caught here.
"""
from __future__ import annotations

import json
import os
import subprocess
import sys

from harness import core

_CACHE = {}


def record():
    """run tests/ of the repository under the recorder; returns ({trace module: [events]}, stats)"""
    if "rec" in _CACHE:
        return _CACHE["rec"]
    out = os.path.join(core.scratch(), "pytrace.ndjson")
    root = os.path.dirname(os.path.dirname(os.path.abspath(__file__)))
    env = dict(os.environ, PYTRACE_OUT=out, PYTHONPATH=root, PYTHONHASHSEED="0", PYTHONDONTWRITEBYTECODE="1")
    p = subprocess.run([sys.executable, "-B", "-m", "pytest", "-q", "-p", "no:cacheprovider", "-p", "harness.pytrace", "tests"],
                       cwd=core.REPO, env=env, capture_output=True, text=True, timeout=1800)
    if p.returncode not in (0, 1) or not os.path.exists(out):
        raise core.MachineryError("recording the repository's test-suite failed: rc=%s %s" % (p.returncode, (p.stdout + p.stderr)[-600:]))
    by, stats = {}, {}
    with open(out) as f:
        for ln in f:
            d = json.loads(ln)
            if d["mod"] == "stats":
                stats = d["e"]
            else:
                by.setdefault(d["mod"], []).append(d["e"])
    stats["pytest_summary"] = ([ln for ln in p.stdout.splitlines() if " passed" in ln or " failed" in ln] or [""])[-1].strip()
    if not by:
        raise core.MachineryError("the recorder produced no events: " + stats["pytest_summary"])
    _CACHE["rec"] = (by, stats)
    return by, stats


def judge(prop, module, prefixes, tid0=10_000_000):
    """validate the recorded events of one trace module; returns (verdict dicts in the checks' format, coverage dict)"""
    by, stats = record()
    evs = by.get(module, [])
    if not evs:
        raise core.MachineryError(f"no recorded events for {module}")
    for e in evs:              # keep clear of the tids of generated traces in the same evidence
        e["tid"] += tid0 if e["tid"] < tid0 else 0
    verdicts, vstats = core.validate(module, evs)
    idx = {}
    for e in evs:
        idx.setdefault(e["tid"], []).append(e)
    out, outside = [], 0
    for v in verdicts:
        if v["clause"] == "machinery.generated-line-not-in-grammar" or v["clause"] == "machinery.generated-entry-not-in-grammar":
            outside += 1       # a line of the test-suite outside the modelled grammar (mostly its invalid-input tests)
            continue
        if not (v["clause"].startswith("machinery") or any(v["clause"].startswith(p) for p in prefixes)):
            continue
        out.append(dict(clause=v["clause"], features=dict(origin="repository-tests"), case=dict(recorded=True, module=module, events=idx[v["tid"]]),
                        events=idx[v["tid"]]))
    cov = dict(module=module, events=len(evs), traces=len(idx), outside_modelled_grammar=outside, recorder=stats, trace_validation=vstats,
               rule="events recorded by harness/pytrace.py while the repository's own tests/ ran (every call the tests make on "
                    "Ace / Ace.shadow_of / Port / Wildcard inside the model's vocabulary), validated by " + module)
    return out, cov


def merge(res, verdicts, cov):
    res["verdicts"] += verdicts
    c = res["coverage"]
    c["traces_validated_against_impl"] = c.get("traces_validated_against_impl", 0) + cov["traces"]
    c["evaluations"] = c.get("evaluations", 0) + cov["events"]
    c.setdefault("recorded_from_repository_tests", []).append(cov)
    c["rule"] = c.get("rule", "") + " || RECORDED: the executions of the repository's own test-suite (" + cov["module"] + ")"
    return res


def replay_recorded(case):
    verdicts, _ = core.validate(case["module"], case["events"], nchunks=1)
    for v in verdicts:
        print("REPLAY verdict (recorded execution of the repository's tests; re-validated, not re-executed):", v)
    return 1 if verdicts else 0
