"""Entry point: ./check <Cxx> [--tier quick|thorough] [--seed N] | --replay <path>

Exit 0: property held on everything explored (KNOWN-FINDING lines possible).
Exit 1: at least one line `VIOLATION property=<id> replay=<path>`.
Exit 2: the machinery itself failed; no verdict.
"""
from __future__ import annotations

import argparse
import importlib
import json
import os
import sys
import time
import traceback

sys.dont_write_bytecode = True
sys.path.insert(0, os.path.dirname(os.path.dirname(os.path.abspath(__file__))))

from harness import core  # noqa: E402


def match_finding(f, prop, v):
    """A known finding suppresses a verdict only if property, clause and every listed feature match."""
    if f.get("property") != prop and prop not in f.get("also", []):
        return False
    if f.get("clause") and f["clause"] != v.get("clause"):
        return False
    feats = v.get("features", {})
    for k, want in (f.get("features") or {}).items():
        if feats.get(k) != want:
            return False
    return True


# properties that are also judged on the executions recorded from the repository's own test-suite (harness/repotests.py)
RECORDED = {"C01": [("Trace_C01", ["C01."])], "C06": [("Trace_C01", ["C06."]), ("Trace_Acl", ["C06."])], "C03": [("Trace_Shadow", ["C03."])],
            "C11": [("Trace_Shadow", ["C11."]), ("Trace_Acl", ["C11."])], "C05": [("Trace_C05", ["C05."])], "C08": [("Trace_C08", ["C08."])],
            "C02": [("Trace_Acl", ["C02."])], "C04": [("Trace_Acl", ["C04."])], "C15": [("Trace_Acl", ["C15."])], "C16": [("Trace_Acl", ["C16."])],
            "C19": [("Trace_Acl", ["C19."])], "C13": [("Trace_C13", ["C13."])], "C10": [("Trace_C10", ["C10."])], "C14": [("Trace_C14", ["C14."])], "C18": [("Trace_C18", ["C18."])],
            "C17": [("Trace_Acl", ["C02.", "C04.", "C06.", "C10.", "C11.", "C15.", "C16.", "C17.", "C19."])]}


def main(argv=None):
    ap = argparse.ArgumentParser()
    ap.add_argument("prop")
    ap.add_argument("--tier", default=os.environ.get("VERIF_TIER", "quick"), choices=["quick", "thorough"])
    ap.add_argument("--seed", type=int, default=int(os.environ.get("VERIF_SEED", "0") or 0))
    ap.add_argument("--replay", default=None)
    a = ap.parse_args(argv)
    prop = a.prop.upper()
    os.environ.setdefault("PYTHONHASHSEED", "0")
    t0 = time.time()
    try:
        mod = importlib.import_module(f"harness.{prop.lower()}")
        if a.replay:
            with open(a.replay) as f:
                rcase = json.load(f).get("case") or {}
            if rcase.get("recorded"):
                from harness import repotests
                rc = repotests.replay_recorded(rcase)
            else:
                rc = mod.replay(a.replay)
            core.cleanup()
            return rc
        for tm in getattr(mod, "TRACE_MODULES", []):
            core.preflight(tm)
        res = mod.run(a.tier, a.seed)
        if prop in RECORDED:
            from harness import repotests
            for module, prefixes in RECORDED[prop]:
                try:
                    core.preflight(module)
                    res = repotests.merge(res, *repotests.judge(prop, module, prefixes))
                except core.MachineryError as ex:
                    # the recorded part is an extra: when the repository's test-suite cannot be run or recorded here, the
                    # generated part still decides the property; the loss is stated in the evidence, never hidden
                    print(f"NOTE property={prop}: recorded executions of the repository's tests unavailable ({str(ex)[:200]})", file=sys.stderr)
                    res["coverage"].setdefault("recorded_from_repository_tests", []).append(dict(module=module, unavailable=str(ex)[:400]))
    except core.MachineryError as ex:
        print(f"MACHINERY-FAILURE property={prop}: {ex}", file=sys.stderr)
        core.cleanup()
        return 2
    except Exception:  # noqa
        traceback.print_exc()
        print(f"MACHINERY-FAILURE property={prop}: unexpected exception", file=sys.stderr)
        core.cleanup()
        return 2

    findings = core.load_findings()
    violations, known = [], {}
    for v in res["verdicts"]:
        for f in findings:
            if match_finding(f, prop, v):
                known.setdefault(f["id"], [f, 0])
                known[f["id"]][1] += 1
                break
        else:
            violations.append(v)
    for fid, (f, n) in sorted(known.items()):
        print(f"KNOWN-FINDING: property={prop} {fid}: {f['what']} ({n} occurrence(s) this run)")
    seen = {}
    for v in violations:
        key = (v.get("clause"), json.dumps(v.get("features", {}), sort_keys=True))
        seen.setdefault(key, []).append(v)
    n = 0
    for key, vs in seen.items():
        n += 1
        v = vs[0]
        path = core.write_replay(prop, f"{a.tier}_{n}", dict(property=prop, clause=v.get("clause"),
                                                            features=v.get("features"), occurrences=len(vs),
                                                            case=v.get("case"), events=v.get("events"),
                                                            how="./check %s --replay <this file>" % prop))
        print(f"VIOLATION property={prop} replay={path} clause={v.get('clause')} occurrences={len(vs)}")
    cov = res["coverage"]
    cov["known_finding_occurrences"] = {k: n_ for k, (f, n_) in known.items()}
    core.write_evidence(prop, a.tier, a.seed, res.get("level", "model_checking"), cov,
                        core.COMMON_ASSUMPTIONS + res.get("assumptions", []), time.time() - t0, len(violations))
    core.cleanup()
    print(f"{prop} {a.tier}: mc_states={cov.get('states')} traces={cov.get('traces_validated_against_impl')} "
          f"events={cov.get('evaluations')} violations={len(violations)} wall={time.time() - t0:.0f}s")
    return 1 if violations else 0


if __name__ == "__main__":
    sys.exit(main())
