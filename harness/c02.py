"""C02 - IOS <-> NX-OS conversion changes spelling only (histories on a live Acl; see harness/aclhist.py, spec AclSem.tla, Trace_Acl.tla)."""
import random

from harness import core, aclhist, c06

PROP = "C02"
TRACE_MODULES = ["Trace_Acl", "Trace_C06"]
WEIGHTS = dict(SetPlatform=10, SetPortNr=1, SetProtocolNr=1, Resequence=1, Group=1, Ungroup=1, Reparse=1, Copy=1)


def run(tier, seed):
    rng = random.Random(seed * 179424673 + 2)
    mcs = [core.mc("MC_Acl", "MC_Acl" if tier == "quick" else "MC_Acl_4"), core.mc("MC_Acl", "MC_Acl_deep")]
    n = 1000 if tier == "quick" else 12000
    jobs = [aclhist.make_history(rng, t, WEIGHTS, nops=rng.randint(2, 6)) for t in range(1, n + 1)]
    aclhist.fill_permutations(rng, jobs)
    res = aclhist.run_histories("C02", jobs, tier, mcs, "operation mix dominated by platform changes in both directions (there, back, there again), interleaved with switches, resequencing, grouping")
    ol, ojobs, oevents, ovstats = c06.object_level(random.Random(seed * 7 + 1), 2500 if tier == "quick" else 60000, "C02.")
    res["verdicts"] += ol
    cov = res["coverage"]
    cov["traces_validated_against_impl"] += len(ojobs)
    cov["evaluations"] += len(oevents)
    cov["distinct_nontrivial"] += len({(j["cls"], j["text"]) for j in ojobs})
    cov["rule"] += " || OBJECT LEVEL: single objects (Ace, Address, AddressAg, AddrGroup, Port, Protocol, Option, Remark, Wildcard) converted on their own: there, back, there again (Trace_C06)"
    cov["object_level"] = dict(trace_validation=ovstats, jobs=len(ojobs))
    return res


def replay(path):
    import json
    with open(path) as f:
        r = json.load(f)
    if "ops" in r["case"]:
        return aclhist.replay_history(path)
    core._init_worker(core.REPO)
    evs = c06.exec_job(r["case"])
    verdicts, _ = core.validate("Trace_C06", evs, nchunks=1)
    mine = [v for v in verdicts if v["clause"].startswith(PROP + ".")]
    for v in mine:
        print("REPLAY verdict:", v)
    return 1 if mine else 0
