"""C02 - IOS <-> NX-OS conversion changes spelling only (histories on a live Acl; see harness/aclhist.py, spec AclSem.tla, Trace_Acl.tla)."""
import random

from harness import core, aclhist

PROP = "C02"
TRACE_MODULES = ["Trace_Acl"]
WEIGHTS = dict(SetPlatform=10, SetPortNr=1, SetProtocolNr=1, Resequence=1, Group=1, Ungroup=1, Reparse=1, Copy=1)


def run(tier, seed):
    rng = random.Random(seed * 179424673 + 2)
    mcs = [core.mc("MC_Acl", "MC_Acl" if tier == "quick" else "MC_Acl_4")]
    n = 1500 if tier == "quick" else 12000
    jobs = [aclhist.make_history(rng, t, WEIGHTS, nops=rng.randint(2, 6)) for t in range(1, n + 1)]
    aclhist.fill_permutations(rng, jobs)
    return aclhist.run_histories("C02", jobs, tier, mcs, "operation mix dominated by platform changes in both directions (there, back, there again), interleaved with switches, resequencing, grouping")


def replay(path):
    return aclhist.replay_history(path)
