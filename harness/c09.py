"""C09 - port / protocol names are pure spelling of their standard numbers.

spec: Names.tla (Cisco keyword tables per platform / software train, reserved words)
mc:   MC_Names: every table closed under name->number->name->number, functional across platforms, disjoint from keywords
bind: COMPLETE enumeration: every exported table, the splitter vocabulary, every (platform, version, protocol,
      name) through Port with both switch settings and a re-parse, every number 1..65535 (thorough; quick: all
      table numbers, both ends and a sample), all 256 protocol numbers and every protocol name x platform x switch,
      every name as destination port of an ACE followed by `ack log`.  Judge: Trace_C09.
"""
from __future__ import annotations

import json
import random

from harness import core, lex

PROP = "C09"
TRACE_MODULES = ["Trace_C09"]
VERSIONS = [("", 0), ("15.2(02)SY", 15), ("16.09.06", 16), ("9.3(8)", 9)]
PLATS = ["asa", "ios", "nxos"]


def optok(s):
    s = str(s)
    return dict(isnum=True, n=int(s), w="") if s.isdigit() else dict(isnum=False, n=0, w=s)


def exec_job(job):
    from cisco_acl import Port, Protocol, Ace
    from cisco_acl.port_name import PortName, all_known_names
    a = job["act"]
    e = dict(tid=job["tid"], i=0, act=a, exc="")
    e.update({k: job[k] for k in ("plat", "vmajor", "proto", "name", "n", "op", "nr", "has_port") if k in job})
    try:
        if a == "Table":
            pn = PortName(protocol=job["proto"], platform=job["plat"], version=job["ver"])
            e["pairs"] = [[k, v] for k, v in pn.names().items()]
            e["inv"] = [[k, v] for k, v in pn.ports().items()]
        elif a == "Vocabulary":
            e["words"] = list(all_known_names())
        elif a in ("PortName", "PortNum"):
            e.update(items=[], line_nr=[], line_nm=[], re_exc="", re_items=[], switch_items=[])
            operand = job["name"] if a == "PortName" else str(job["n"])
            kw = dict(platform=job["plat"], version=job["ver"], protocol=job["proto"])
            if "frm" in job:   # history: built for another platform / version, rendered, then switched in place
                import netports
                f = job["frm"]
                p = Port(f"{job.get('op', 'eq')} {operand}", platform=f["plat"], version=f["ver"], protocol=f.get("proto", job["proto"]))
                _ = p.line
                if f.get("proto", job["proto"]) != job["proto"]:
                    p.protocol = job["proto"]        # tcp <-> udp on the live object: the number stays, the name follows the new table
                if f["plat"] != job["plat"]:
                    p.platform = job["plat"]
                p.version = netports.SwVersion(job["ver"] or "0")
            elif job.get("via") == "aces":     # through the configuration front end: the version must reach the entry's ports
                import cisco_acl
                hdr = "ip access-list extended A" if job["plat"] == "ios" else "ip access-list A"
                acl = cisco_acl.aces(config=f"{hdr}\n permit {job['proto']} any any eq {operand}\n", platform=job["plat"], version=job["ver"])
                leaves = [x for x in acl if type(x).__name__ == "Ace"]
                p = leaves[0].dstport
            else:
                p = Port(f"{job.get('op', 'eq')} {operand}", **kw)
            e["items"] = list(p.items)
            e["line_nm"] = [optok(x) for x in p.line.split()]
            p.port_nr = True
            e["line_nr"] = [optok(x) for x in p.line.split()]
            e["switch_items"] = list(p.items)
            p.port_nr = False
            try:
                e["re_items"] = list(Port(p.line, **kw).items)
            except Exception as ex:  # noqa
                e["re_exc"] = core.exc_name(ex)
        elif a == "Proto":
            e.update(inp=optok(job["inp"]), number=0, line=optok("0"), pname="", re_exc="", re_number=0, ace_exc="", ace_number=0, ace_line=optok("0"),
                     with_ports=dict(done=False, number=0, sp=[], dp=[]), generated=dict(done=False, n=0, number=0, sp=[], dp=[]))
            kw = dict(platform=job["plat"], protocol_nr=job["nr"], has_port=job["has_port"])
            p = Protocol(job["inp"], **kw)
            e["number"], e["line"], e["pname"] = p.number, optok(p.line), p.name
            try:
                e["re_number"] = Protocol(p.line, **kw).number
            except Exception as ex:  # noqa
                e["re_exc"] = core.exc_name(ex)
            try:    # the same spelling as the protocol of an entry (the ACE line parser must accept it back too)
                ace = Ace(f"permit {p.line} any any", platform=job["plat"], protocol_nr=job["nr"])
                e["ace_number"], e["ace_line"] = ace.protocol.number, optok(ace.line.split()[1])
                if p.number in (6, 17):     # tcp / udp, however spelled, may carry port expressions; the switch changes text only
                    import cisco_acl
                    a2 = Ace(f"permit {job['inp']} any eq 1000 any eq 2000", platform=job["plat"], protocol_nr=job["nr"])
                    e["with_ports"] = dict(done=True, number=a2.protocol.number, sp=list(a2.srcport.items), dp=list(a2.dstport.items))
                    if job["plat"] != "asa":
                        out = cisco_acl.range_protocols(protocols=str(p.number), line="permit tcp any eq 1000 any eq 2000", platform=job["plat"],
                                                        protocol_nr=job["nr"])
                        a3 = Ace(out[0], platform=job["plat"], protocol_nr=job["nr"])
                        e["generated"] = dict(done=True, n=len(out), number=a3.protocol.number, sp=list(a3.srcport.items), dp=list(a3.dstport.items))
            except Exception as ex:  # noqa
                e["ace_exc"] = core.exc_name(ex)
        elif a == "Split":
            e.update(items=[], flags=[], logs=[])
            ace = Ace(f"permit {job['proto']} any any eq {job['name']} ack log", platform=job["plat"], version=job["ver"])
            e["items"], e["flags"], e["logs"] = list(ace.dstport.items), list(ace.option.flags), list(ace.option.logs)
    except Exception as ex:  # noqa
        e["exc"] = core.exc_name(ex)
    return [e]


def run(tier, seed):
    rng = random.Random(seed * 67867967 + 9)
    mcs = [core.mc("MC_Names", workers=4)]
    vals, gen = core.generate("MC_Names", "MC_Names_gen")
    spec_ports, spec_protos = vals[0]["ports"], vals[0]["protos"]
    # names the library itself knows (plain data read, no interpretation): so that a name present only in
    # the implementation is also pushed through the checks
    core._init_worker(core.REPO)
    from cisco_acl import port_name as pn_mod, protocol as pr_mod
    lib_ports = set(pn_mod.all_known_names())
    for v in vars(pn_mod).values():
        if isinstance(v, dict) and v and all(isinstance(k, str) and type(x) is int for k, x in v.items()):
            lib_ports.update(v)
    lib_protos = set()
    for v in vars(pr_mod).values():
        if isinstance(v, dict) and v and all(isinstance(k, str) and type(x) is int for k, x in v.items()):
            lib_protos.update(v)
    names = sorted(set(spec_ports) | lib_ports)
    protos = sorted(set(spec_protos) | lib_protos | {"bogus", "tcpx"})
    numbers_named = set()
    for v in vars(pn_mod).values():
        if isinstance(v, dict):
            numbers_named.update(x for x in v.values() if type(x) is int)

    jobs, t = [], 1

    def add(**kw):
        nonlocal t
        jobs.append(dict(tid=t, **kw))
        t += 1
    add(act="Vocabulary")
    for plat in PLATS:
        for ver, vmaj in VERSIONS:
            for proto in ("tcp", "udp"):
                add(act="Table", plat=plat, ver=ver, vmajor=vmaj, proto=proto)
                for name in names:
                    add(act="PortName", plat=plat, ver=ver, vmajor=vmaj, proto=proto, name=name,
                        op="eq" if plat != "ios" else rng.choice(["eq", "neq", "eq"]))
                    if plat != "asa":
                        add(act="Split", plat=plat, ver=ver, vmajor=vmaj, proto=proto, name=name)
                if tier == "thorough":
                    nums = range(1, 65536)
                else:
                    nums = sorted(numbers_named | {1, 2, 65534, 65535} | {n + d for n in numbers_named for d in (-1, 1)}
                                  | {rng.randint(1, 65535) for _ in range(60)})
                if tier == "thorough" and (ver, plat) not in (("", "ios"), ("15.2(02)SY", "ios"), ("9.3(8)", "nxos"), ("", "asa")):
                    nums = sorted(numbers_named | {1, 65535})
                for n in nums:
                    if 1 <= n <= 65535:
                        add(act="PortNum", plat=plat, ver=ver, vmajor=vmaj, proto=proto, n=n)
        # histories on one object: render under one (platform, version), switch, render again
        for ver, vmaj in VERSIONS:
            for fplat in PLATS:
                for fver, _fm in VERSIONS:
                    if (fplat, fver) == (plat, ver):
                        continue
                    for proto in ("tcp", "udp"):
                        for n in sorted(numbers_named):
                            if rng.random() < (0.5 if tier == "quick" else 1.0):
                                add(act="PortNum", plat=plat, ver=ver, vmajor=vmaj, proto=proto, n=n, frm=dict(plat=fplat, ver=fver))
        # the same with the protocol switched on the live object
        for ver, vmaj in VERSIONS:
            for proto in ("tcp", "udp"):
                other = "udp" if proto == "tcp" else "tcp"
                for n in sorted(numbers_named):
                    if rng.random() < (0.5 if tier == "quick" else 1.0):
                        add(act="PortNum", plat=plat, ver=ver, vmajor=vmaj, proto=proto, n=n, frm=dict(plat=plat, ver=ver, proto=other))
        # the config-level entry point aces() with the software version
        if plat != "asa":
            for ver, vmaj in VERSIONS:
                for proto in ("tcp", "udp"):
                    for n in sorted(numbers_named):
                        if rng.random() < (0.3 if tier == "quick" else 1.0):
                            add(act="PortNum", plat=plat, ver=ver, vmajor=vmaj, proto=proto, n=n, via="aces")
        for nr in (False, True):
            for hp in (False, True):
                for n in list(range(0, 256)) + [256, 300]:
                    add(act="Proto", plat=plat, nr=nr, has_port=hp, inp=str(n))
                for nm in protos:
                    add(act="Proto", plat=plat, nr=nr, has_port=hp, inp=nm)

    ev_lists = core.pmap(exec_job, jobs)
    events = [e for evs in ev_lists for e in evs]
    verdicts, vstats = core.validate("Trace_C09", events)
    by_tid = {j["tid"]: (j, evs) for j, evs in zip(jobs, ev_lists)}
    out = []
    for v in verdicts:
        j, evs = by_tid[v["tid"]]
        out.append(dict(clause=v["clause"], features=dict(act=j["act"], plat=j.get("plat"), proto=j.get("proto"),
                                                          name=j.get("name", j.get("inp", j.get("n")))), case=j, events=evs))
    distinct = {json.dumps({k: v for k, v in j.items() if k != "tid"}, sort_keys=True) for j in jobs}
    cov = dict(
        states=sum(m.get("states", 0) for m in mcs) + gen["states"], transitions=sum(m.get("states", 0) for m in mcs),
        distinct_states=sum(m.get("distinct", 0) for m in mcs),
        traces_validated_against_impl=len(jobs), evaluations=len(events), distinct_nontrivial=len(distinct),
        rule="complete enumeration: every (platform in asa/ios/nxos) x (version '', 15.x, 16.x, 9.x) x (tcp, udp) table "
             "export; the splitter vocabulary; every name known to the specification or to the library through Port "
             "(names switch on/off, re-parse) on every platform/version/protocol (a name foreign to that table must be "
             "rejected); every named number, its neighbours, both ends and a sample (quick) or every number 1..65535 "
             "(thorough) rendered and read back; all 256 protocol numbers (+2 invalid) and every protocol name x "
             "platform x protocol_nr x has_port; every name as destination port followed by 'ack log' in an ACE; "
             "every case is distinct and counts as non-trivial",
        samples=[dict(job=jobs[i], events=ev_lists[i]) for i in (1, 2, len(jobs) // 2, len(jobs) - 1)],
        model_checking=mcs, generation=gen, trace_validation=vstats, exhaustive=(tier == "thorough"),
        checker_cmd="tlc MC_Names (P_RoundTrip, P_Functional, P_NoCollision, P_Range, P_InVocabulary, P_TcpUdpAgree); tlc Trace_C09",
    )
    return dict(verdicts=out, coverage=cov, level="model_checking",
                assumptions=["Names.tla is a faithful transcription of Cisco's CLI keyword help for the device models "
                             "named in cisco_acl/port_name.py (ASA 9.12, IOS 15.2, IOS XE 16.9, NX-OS 9.3)",
                             "which alias is rendered for a number with two names (cmd/syslog, ah/ahp) is not fixed "
                             "by the property; any name of that number in the platform's table is accepted"])


def replay(path):
    with open(path) as f:
        r = json.load(f)
    core._init_worker(core.REPO)
    evs = exec_job(r["case"])
    verdicts, _ = core.validate("Trace_C09", evs, nchunks=1)
    for v in verdicts:
        print("REPLAY verdict:", v)
    print("REPLAY events:", len(evs))
    return 1 if verdicts else 0
