"""C11 - shadow answers are exact on group-free entries (pair level; see harness/shadow.py).
The ACL-level report part of C11 is checked together with C04's machine (harness/c04.py) once registered."""
from harness import shadow

PROP = "C11"
TRACE_MODULES = ["Trace_Shadow"]


def run(tier, seed):
    return shadow.run_shadow("C11", tier, seed, groups=False)


def replay(path):
    return shadow.replay_shadow(path)
