"""C11 - shadow answers are exact on group-free entries; the ACL report follows its specification.
Pair level: harness/shadow.py (Trace_Shadow).  Report level: histories of shading()/shadow_of() on group-free ACLs
(Trace_Acl: every reported pair is a real shadow, and on ACLs with distinct lines the report equals the first-top
attribution computed by AclSem)."""
import random

from harness import core, shadow, aclhist

PROP = "C11"
TRACE_MODULES = ["Trace_Shadow", "Trace_Acl"]
WEIGHTS = dict(Shading=6, ShadowOf=3, Reverse=1, Permute=1, SetPlatform=1, Ungroup=1, Pop=1)


def run(tier, seed):
    res = shadow.run_shadow("C11", tier, seed, groups=False)
    rng = random.Random(seed * 275604541 + 11)
    n = 1500 if tier == "quick" else 12000
    jobs = [aclhist.make_history(rng, t, WEIGHTS, nops=rng.randint(1, 4), n=rng.randint(3, 10), groups=False) for t in range(1, n + 1)]
    aclhist.fill_permutations(rng, jobs)
    rep = aclhist.run_histories("C11", jobs, tier, [core.mc("MC_Acl")],
                                "operation mix dominated by shading() / shadow_of() with every skip subset on group-free lists of "
                                "3..10 entries (bottoms derived from tops, duplicates, interleaved actions)")
    res["verdicts"] += rep["verdicts"]
    c, r = res["coverage"], rep["coverage"]
    for k in ("states", "transitions", "distinct_states", "traces_validated_against_impl", "evaluations", "distinct_nontrivial"):
        c[k] = c.get(k, 0) + r.get(k, 0)
    c["rule"] = "PAIRS: " + c["rule"] + " || REPORTS: " + r["rule"]
    c["samples"] = c["samples"][:2] + r["samples"][:1]
    c["report_level"] = dict(trace_validation=r["trace_validation"], model_checking=r["model_checking"])
    res["assumptions"] += rep["assumptions"]
    return res


def replay(path):
    import json
    with open(path) as f:
        r = json.load(f)
    return aclhist.replay_history(path) if "ops" in r["case"] else shadow.replay_shadow(path)
