"""C06 - rendered text is a fixed point of the parser at every object level.

spec: the readers of AceText / AddrText / PortSem / Names, dispatched per class by Trace_C06.tla
mc:   MC_AceText (reader inverts writer), MC_PortSem, MC_AddrSem, MC_Names (closure of the name tables)
bind: objects of every exported class built from native (and foreign) text, rendered, re-parsed twice with the same
      platform / version / switches / indentation; the ACE level is also bound by Trace_C01 (clauses C06.*).
"""
from __future__ import annotations

import json
import random

from harness import core, lex, proj, aclhist
from harness import c01 as ace_gen
from harness.c13 import spellings_ace, spellings_member, clean
from harness.shadow import rand_w, FLAGS

PROP = "C06"
TRACE_MODULES = ["Trace_C06", "Trace_C01", "Trace_Acl"]
HIST_WEIGHTS = dict(Reparse=6, SetPortNr=3, SetProtocolNr=3, Group=2, Ungroup=1, SetPlatform=1, Resequence=1, SetType=1)


def parts_of(cls, text):
    """text -> [{kind, toks}] : one part per line; only the first line of multi-line objects is a header"""
    if cls in ("Acl", "acls"):
        ls = [s for s in text.split("\n") if s.strip()]
        return [dict(kind="AclHeader", toks=lex.lex(ls[0]))] + [dict(kind="Line", toks=lex.lex(s)) for s in ls[1:]]
    if cls in ("AddrGroup", "addrgroups"):
        ls = [s for s in text.split("\n") if s.strip()]
        return [dict(kind="AgHeader", toks=lex.lex(ls[0]))] + [dict(kind="AddressAg", toks=lex.lex(s)) for s in ls[1:]]
    if cls == "AceGroup":
        return [dict(kind="Line", toks=lex.lex(s)) for s in text.split("\n") if s.strip()]
    return [dict(kind=cls, toks=lex.lex(text))]


def build(cls, text, kw):
    import cisco_acl
    from cisco_acl import Acl, AceGroup, AddrGroup, Ace, Remark, Address, AddressAg, Port, Protocol, Option, Wildcard
    if cls == "acls":
        r = cisco_acl.acls(text, **{k: v for k, v in kw.items() if k not in ("indent", "note")})
        if len(r) != 1:
            raise ValueError(f"acls() returned {len(r)} lists")
        r[0].indent = kw.get("indent", "  ")
        return r[0]
    if cls == "addrgroups":
        r = cisco_acl.addrgroups(text, **{k: v for k, v in kw.items() if k in ("platform", "version")})
        if len(r) != 1:
            raise ValueError(f"addrgroups() returned {len(r)} groups")
        r[0].indent = kw.get("indent", "  ")
        return r[0]
    c = dict(Acl=Acl, AceGroup=AceGroup, AddrGroup=AddrGroup, Ace=Ace, Remark=Remark, Address=Address, AddressAg=AddressAg, Port=Port,
             Protocol=Protocol, Option=Option, Wildcard=Wildcard)[cls]
    return c(text, **kw)


def _mutables(obj, seen=None, depth=0):
    """identities of mutable objects reachable from obj (lists, dicts, library objects), the user note excluded"""
    seen = set() if seen is None else seen
    if depth > 6 or id(obj) in seen:
        return seen
    if isinstance(obj, (list, dict, set)):
        seen.add(id(obj))
        for x in (obj.values() if isinstance(obj, dict) else obj):
            _mutables(x, seen, depth + 1)
    elif type(obj).__module__.startswith("cisco_acl"):
        seen.add(id(obj))
        for k, v in vars(obj).items():
            if k != "note":
                _mutables(v, seen, depth + 1)
    return seen


def _mutate(cls, c):
    """some in-place changes of a copy through its public attributes"""
    name = type(c).__name__
    if name == "Port":
        c.items.append(9) if c.items is not None else None
        c.ports.append(9)
        c.line = "eq 9"
    elif name == "Protocol":
        c.number = 9
    elif name == "Option":
        c.flags.append("zz")
        c.logs.append("log")
        c.line = "fin"
    elif name == "Wildcard":
        c.line = "9.9.9.9 0.0.0.0"
    elif name in ("Address", "AddressAg"):
        c.items.append(type(c)("host 9.9.9.9", platform=c.platform))
        c.line = "host 9.9.9.9"
    elif name == "Remark":
        c.text = "changed"
        c.sequence = 77
    elif name == "Ace":
        c.srcaddr.line = "host 9.9.9.9"
        c.option.flags.append("zz")
        c.srcport.items.append(9)
        c.sequence = 77
        c.note = "changed"
    elif name in ("AceGroup", "Acl"):
        for x in c.items[:1]:
            x.sequence = 77
            if hasattr(x, "srcaddr"):
                x.srcaddr.line = "host 9.9.9.9"
        c.items.reverse()
        if c.items:
            c.items.pop()
        if name == "Acl":
            c.input.append("interface X")
            c.name = "CHANGED"
    elif name == "AddrGroup":
        for x in c.items[:1]:
            x.line = "host 9.9.9.9"
        c.items.append(c.items[0])
        c.name = "CHANGED"


def _conv(cls, job, kw, o):
    """obj.platform = other ; = original ; = other   (single objects; ACLs are converted inside histories)"""
    plat = kw.get("platform", "ios")
    r = dict(done=False, exc="", t1=[], back_exc="", t2=[], there_again_same_text=True, same_id=True, same_note=True)
    if plat not in ("ios", "nxos") or cls in ("Acl", "AceGroup", "acls", "addrgroups"):
        return r
    r["done"] = True
    to = "ios" if plat == "nxos" else "nxos"
    # the documented spellings of a platform are interchangeable ("cnx", "cisco_nxos" = "nxos"; "cisco_ios" = "ios")
    alias = {"nxos": ["nxos", "cnx", "cisco_nxos"], "ios": ["ios", "cisco_ios"]}
    to_s = alias[to][job["tid"] % len(alias[to])]
    plat_s = alias[plat][(job["tid"] // 3) % len(alias[plat])]
    uid, note = o.uuid, o.note
    try:
        o.platform = to_s
        first = o.line
        r["t1"] = parts_of(cls, first)
        r["same_id"], r["same_note"] = o.uuid == uid, o.note == note
    except Exception as ex:  # noqa
        r["exc"] = "ValueError" if isinstance(ex, ValueError) else core.exc_name(ex)
        return r
    try:
        o.platform = plat_s
        r["t2"] = parts_of(cls, o.line)
        o.platform = to_s
        r["there_again_same_text"] = o.line == first
        r["same_id"], r["same_note"] = r["same_id"] and o.uuid == uid, r["same_note"] and o.note == note
    except Exception as ex:  # noqa
        r["back_exc"] = core.exc_name(ex)
    return r


def _copy(cls, o):
    r = dict(done=True, exc="", copy_same_text=True, copy_same_data=True, data_same_text=True, data_same_data=True, copy_new_id=True,
             shared_mutables=0, source_unchanged_after_mutating_copy=True, copy_keeps_note=True)
    try:
        t, d = o.line, proj.digest(o)
        c = o.copy()
        r["copy_same_text"], r["copy_same_data"] = c.line == t, proj.digest(c) == d
        r["copy_new_id"], r["copy_keeps_note"] = c.uuid != o.uuid, c.note == o.note
        b = type(o)(**o.data())
        r["data_same_text"], r["data_same_data"] = b.line == t, proj.digest(b) == d
        r["shared_mutables"] = len(_mutables(o) & _mutables(c)) + len(_mutables(o) & _mutables(b))
        for twin in (c, b):
            try:
                _mutate(cls, twin)
            except Exception:  # noqa  a mutation the class refuses is fine; the source must be untouched either way
                pass
        r["source_unchanged_after_mutating_copy"] = (o.line == t and proj.digest(o) == d)
    except Exception as ex:  # noqa
        r["exc"] = core.exc_name(ex)
    return r


def exec_job(job):
    cls, kw = job["cls"], dict(job["kw"])
    kw["note"] = "N1"
    e = dict(tid=job["tid"], i=0, act="FP", cls=cls, plat=job.get("read_as") or kw.get("platform", "ios"), vmajor=job["vmajor"], proto=kw.get("protocol", ""),
             native=job["native"], inp=parts_of(cls, job["text"]), exc="", t1=[], re=dict(exc="", t=[], same_text=True, same_data=True),
             re2=dict(exc="", t=[], same_text=True, same_data=True),
             conv=dict(done=False, exc="", t1=[], back_exc="", t2=[], there_again_same_text=True, same_id=True, same_note=True),
             cp=dict(done=False, exc="", copy_same_text=True, copy_same_data=True, data_same_text=True, data_same_data=True, copy_new_id=True,
                     shared_mutables=0, source_unchanged_after_mutating_copy=True, copy_keeps_note=True))
    try:
        if job.get("first") is not None:      # history: an object that held another text is given this one through its line setter
            o1 = build(cls, job["first"], kw)
            _ = o1.line
            o1.line = job["text"]
        else:
            o1 = build(cls, job["text"], kw)
        t1, d1 = o1.line, proj.digest(o1)
        e["t1"] = parts_of(cls, t1)
    except Exception as ex:  # noqa
        e["exc"] = core.exc_name(ex)
        return [e]
    prev_t, prev_d = t1, d1
    for key in ("re", "re2"):
        try:
            o = build(cls, prev_t, kw)
            t, d = o.line, proj.digest(o)
            e[key] = dict(exc="", t=parts_of(cls, t), same_text=(t == prev_t), same_data=(d == prev_d))
            prev_t, prev_d = t, d
        except Exception as ex:  # noqa
            e[key] = dict(exc=core.exc_name(ex), t=[], same_text=False, same_data=False)
            break
    if job.get("extras", True):
        try:
            o_cp = build(cls, job["text"], kw)
            if job.get("set_items"):
                o_cp.items = list(job["set_items"])
            if cls in ("AddrGroup", "addrgroups", "Acl", "acls") and job["tid"] % 4 == 0:
                o_cp.indent = ""         # rendered without indentation (set through the public property): copies must follow
            e["cp"] = _copy(cls, o_cp)
            e["conv"] = _conv(cls, job, kw, build(cls, job["text"], kw))
        except Exception as ex:  # noqa
            e["cp"]["exc"] = "harness:" + core.exc_name(ex)
            e["cp"]["done"] = True
    return [e]


# ------------------------------------------------------------------ inputs per class (syntax only)

def versions(plat):
    return [("", 0), ("15.2", 15), ("16.9", 16)] if plat == "ios" else [("", 0), ("9.3", 9)]


def gen_jobs(rng, n):
    jobs, t = [], 1

    def add(cls, text, kw, vm, native=True):
        nonlocal t
        jobs.append(dict(tid=t, cls=cls, text=text, kw=kw, vmajor=vm, native=native))
        t += 1
    for _ in range(n):
        plat = rng.choice(["ios", "nxos"])
        ver, vm = rng.choice(versions(plat))
        base = dict(platform=plat, version=ver)
        r = rng.random()
        if r < 0.12:      # Port
            proto = rng.choice(["tcp", "udp"])
            txt = ace_gen.port_text(rng, plat, vm, proto) or "eq 80"
            add("Port", txt, dict(base, protocol=proto, port_nr=rng.random() < 0.5), vm)
        elif r < 0.2:     # Protocol
            tb = ace_gen.tables()["protos"]
            add("Protocol", rng.choice(tb + [str(rng.randint(0, 255)) for _ in range(len(tb))]), dict(base, protocol_nr=rng.random() < 0.5), vm)
        elif r < 0.25:    # Option
            fl = rng.sample(FLAGS, rng.randint(0, 3)) + rng.choice([[], ["log"], ["log-input"]])
            if fl:
                add("Option", " ".join(fl), dict(base), vm)
        elif r < 0.32:    # Wildcard
            w = rand_w(rng, maxnc=4)
            d = dict(base=[b if m == 0 else rng.randint(0, 1) for b, m in zip(w["base"], w["mask"])], mask=w["mask"])
            add("Wildcard", lex.wild_text(d), dict(base), vm)
        elif r < 0.42:    # Address
            w = rand_w(rng, maxnc=4)
            sp = spellings_ace(w, plat)
            txt = rng.choice(sp)
            native = not (plat == "ios" and "/" in txt)
            if rng.random() < 0.1:
                txt, native = ("addrgroup " if plat == "nxos" else "object-group ") + "NAME_1", True
            add("Address", txt, dict(base), vm, native)
        elif r < 0.52:    # AddressAg
            w = rand_w(rng, maxnc=0 if plat == "ios" else 3)
            sp = spellings_member(w, plat)
            if sp:
                txt = rng.choice(sp)
                native = not (plat == "ios" and "/" in txt)
                if rng.random() < 0.5:
                    txt = f"{rng.choice([10, 20, 4294967295])} {txt}"
                    native = native and plat == "nxos"      # IOS members carry no number: the library drops it on re-typing
                add("AddressAg", txt, dict(base), vm, native)
            if rng.random() < 0.2:     # a member that references another group, with that group's members loaded (IOS; and ASA, whose
                asa = rng.random() < 0.4   # member syntax is the same here: the text is read as IOS, the object lives on asa)
                inner = [rng.choice(["host 10.1.1.1", "10.2.0.0 255.255.0.0", "host 192.168.7.7"]) for _k in range(rng.randint(1, 3))]
                how = rng.choice(["kw", "setter"])       # members given to the constructor, or attached afterwards through the items setter
                add("AddressAg", "group-object " + rng.choice(["INNER", "G-2"]),
                    dict(platform="asa" if asa else "ios", version="", **(dict(items=inner) if how == "kw" else {})), 0, True)
                jobs[-1]["read_as"] = "ios"
                if how == "setter":
                    jobs[-1]["set_items"] = inner
        elif r < 0.6:     # Remark
            words = rng.choice(["text", "10 text", "permit ip any any", "= H1, details", "a  b", "deny", "remark remark", "x" * 40, "1.1.1.1 any"])
            seq = rng.choice(["", "10 ", "4294967295 "])
            add("Remark", f"{seq}remark {words}", dict(base), vm)
        elif r < 0.68:    # AceGroup
            header, lines, _g = aclhist.seed_acl(rng, plat, n=rng.randint(1, 5), groups=False)
            add("AceGroup", "\n".join(lines), dict(base, port_nr=rng.random() < 0.4, protocol_nr=rng.random() < 0.4), vm)
        elif r < 0.86:    # Acl / acls()
            header, lines, _g = aclhist.seed_acl(rng, plat, n=rng.randint(1, 7), groups=True)
            std = plat == "ios" and rng.random() < 0.2
            if std:
                header = "ip access-list standard " + rng.choice(["STD", "99", "a-b_c"])
                lines = [ace_gen.std_text(rng, plat) for _ in range(rng.randint(1, 4))] + ["remark std"]
            else:
                header = header.replace("ACL1", rng.choice(["ACL1", "Name-2", "x.y", "100"]))
            ind = rng.choice([" ", "  ", "   ", "\t"])
            text = "\n".join([header] + [ind + s for s in lines])
            kw = dict(base, port_nr=rng.random() < 0.4, protocol_nr=rng.random() < 0.4, indent=ind)
            add(rng.choice(["Acl", "Acl", "acls"]), text, kw, vm)
        else:             # AddrGroup / addrgroups()
            hdr = ("object-group ip address " if plat == "nxos" else "object-group network ") + rng.choice(["G1", "Name-2", "x.y"])
            mems = []
            for k in range(rng.randint(1, 5)):
                w = rand_w(rng, maxnc=0 if plat == "ios" else 2)
                sp = [s for s in spellings_member(w, plat) if not (plat == "ios" and "/" in s)]
                if sp:
                    m = rng.choice(sp)
                    mems.append(f"{(k + 1) * 10} {m}" if plat == "nxos" and rng.random() < 0.7 else m)
            if mems:
                ind = rng.choice([" ", "  ", "   ", "\t"])
                add(rng.choice(["AddrGroup", "addrgroups"]), "\n".join([hdr] + [ind + m for m in mems]), dict(base, indent=ind), vm)
    # histories: the line of a live object re-assigned (to the text of another job of the same class and settings, or to nothing)
    by = {}
    for j in jobs:
        if j["cls"] in ("Port", "Option", "Ace", "Remark", "Wildcard", "Address", "AddressAg", "Protocol"):
            by.setdefault((j["cls"], json.dumps(j["kw"], sort_keys=True)), []).append(j)
    extra = []
    for key, js in by.items():
        for j in js:
            if len(js) > 1 and rng.random() < 0.2:
                other = rng.choice(js)
                extra.append(dict(j, tid=t, first=other["text"], extras=False)); t += 1
            if j["cls"] == "Option" and rng.random() < 0.3:
                extra.append(dict(j, tid=t, text="", first=j["text"], extras=False)); t += 1
    return jobs + extra


def object_level(rng, n, own_prefix):
    """object-level jobs judged by Trace_C06; returns the verdicts whose clause starts with own_prefix (used by C02 and C16 too)"""
    jobs = gen_jobs(rng, n)
    ev_lists = core.pmap(exec_job, jobs)
    events = [e for evs in ev_lists for e in evs]
    verdicts, vstats = core.validate("Trace_C06", events)
    by_tid = {j["tid"]: (j, evs) for j, evs in zip(jobs, ev_lists)}
    out = []
    for v in verdicts:
        if not (v["clause"].startswith(own_prefix) or v["clause"].startswith("machinery")):
            continue
        j, evs = by_tid[v["tid"]]
        out.append(dict(clause=v["clause"], features=dict(cls=j["cls"], plat=j["kw"].get("platform")), case=j, events=evs))
    return out, jobs, events, vstats


def run(tier, seed):
    rng = random.Random(seed * 295075153 + 6)
    own_prefix = "C06."
    mcs = [core.mc("MC_AceText"), core.mc("MC_Names", workers=4), core.mc("MC_PortSem")]
    jobs = gen_jobs(rng, 6000 if tier == "quick" else 60000)
    hits, vstats, n_events, samples = core.exec_validate(exec_job, jobs, "Trace_C06")
    events = range(n_events)          # only its length is used by the callers
    out = []
    for v, j, evs in hits:
        if not (v["clause"].startswith(own_prefix) or v["clause"].startswith("machinery")):
            continue
        out.append(dict(clause=v["clause"], features=dict(cls=j["cls"], plat=j["kw"].get("platform")), case=j, events=evs))
    if own_prefix != "C06.":
        return out, jobs, events, vstats
    # ACE level: the C06.* clauses of Trace_C01 on the C01 input grammar
    rng2 = random.Random(seed * 122949829 + 61)
    n_ace = 4000 if tier == "quick" else 40000
    ajobs = []
    for t in range(1, n_ace + 1):
        plat = rng2.choice(["ios", "nxos"])
        ver, vm = rng2.choice(ace_gen.VERSIONS)
        ajobs.append(dict(tid=t, plat=plat, ver=ver, vmajor=vm, port_nr=rng2.random() < 0.4, protocol_nr=rng2.random() < 0.4,
                          line=ace_gen.ace_text(rng2, plat, vm), origin="slots"))
    ahits, astats, n_aevents, _asamples = core.exec_validate(ace_gen.exec_job, ajobs, "Trace_C01", batch=4000)
    aevents = range(n_aevents)
    for v, j, evs in ahits:
        if v["clause"].startswith("C06.") or v["clause"].startswith("machinery"):
            out.append(dict(clause=v["clause"], features=dict(cls="Ace", plat=j["plat"]), case=j, events=evs))
    # live lists: the text of an Acl whose switches / grouping / platform were assigned after construction must parse
    # back (under the object's current settings) to the same text - Reparse steps of the ACL machine (Trace_Acl)
    from harness import aclhist
    rng3 = random.Random(seed * 15485863 + 62)
    hjobs = [aclhist.make_history(rng3, t, HIST_WEIGHTS, nops=rng3.randint(2, 6)) for t in range(1, (400 if tier == "quick" else 6000) + 1)]
    aclhist.fill_permutations(rng3, hjobs)
    hres = aclhist.run_histories("C06", hjobs, tier, [], "live lists re-parsed after switches were assigned")
    out += hres["verdicts"]
    distinct = {json.dumps([j["cls"], j["text"], j["kw"]], sort_keys=True) for j in jobs} | {json.dumps([j["plat"], j["line"]]) for j in ajobs}
    per_class = {}
    for j in jobs:
        per_class[j["cls"]] = per_class.get(j["cls"], 0) + 1
    per_class["Ace"] = len(ajobs)
    cov = dict(
        states=sum(m.get("states", 0) for m in mcs), transitions=sum(m.get("states", 0) for m in mcs),
        distinct_states=sum(m.get("distinct", 0) for m in mcs),
        traces_validated_against_impl=len(jobs) + len(ajobs) + len(hjobs), evaluations=len(events) + len(aevents) + hres["coverage"]["evaluations"],
        distinct_nontrivial=len(distinct) + hres["coverage"]["distinct_nontrivial"],
        per_class=per_class, live_list_histories=dict(n=len(hjobs), trace_validation=hres["coverage"]["trace_validation"]),
        rule="one trace = one object built from text, rendered (T1), rebuilt from T1 (T2) and from T2 (T3) with the same "
             "platform, version, switches and indentation, with the data digests; classes: Port, Protocol, Option, "
             "Wildcard, Address, AddressAg, Remark, Ace, AceGroup, Acl (extended and standard, indent 1..3, numbered or "
             "not, names incl. digits and punctuation), AddrGroup (IOS / NX-OS, with member numbers), and the "
             "config-level functions acls() / addrgroups() on a single section; inputs in native syntax (strict fixed "
             "point demanded) or foreign spellings (meaning kept, stable from the first re-parse); distinct = distinct "
             "(class, text, settings); every case is non-trivial || LIVE LISTS: Acl objects whose switches, grouping, "
             "type or platform were assigned after construction, rendered and parsed back under their current settings "
             "(Reparse steps judged by Trace_Acl)",
        samples=[dict(job=j_, events=e_) for j_, e_ in samples],
        model_checking=mcs, trace_validation=[vstats, astats], exhaustive=False,
        checker_cmd="tlc MC_AceText, MC_Names, MC_PortSem; tlc Trace_C06, Trace_C01 (W=32, PMax=65535)",
    )
    return dict(verdicts=out, coverage=cov, level="model_checking", assumptions=[
        "the explored 'state space' is the input grammar (reader / writer lemmas); C06 has no object history",
        "members of named address groups are not part of an ACE's text and are not compared by the text fixed point"])


def replay(path):
    with open(path) as f:
        r = json.load(f)
    core._init_worker(core.REPO)
    job = r["case"]
    if "ops" in job:
        from harness import aclhist
        return aclhist.replay_history(path)
    if "line" in job:
        evs = ace_gen.exec_job(job)
        verdicts, _ = core.validate("Trace_C01", evs, nchunks=1)
    else:
        evs = exec_job(job)
        verdicts, _ = core.validate("Trace_C06", evs, nchunks=1)
    for v in verdicts:
        print("REPLAY verdict:", v)
    print("REPLAY case:", json.dumps(job)[:600])
    return 1 if [v for v in verdicts if v["clause"].startswith("C06")] else 0
