"""Lexer / concretiser are inverse to each other on the values the generators produce."""
import os, random, sys
sys.dont_write_bytecode = True
sys.path.insert(0, os.path.dirname(os.path.dirname(os.path.abspath(__file__))))
from harness import lex

rng = random.Random(1)
for _ in range(20000):
    n = rng.getrandbits(32)
    b = lex.int_bits(n)
    assert lex.bits_int(b) == n and lex.ip_bits(lex.bits_ip(b)) == b
    t = lex.tok(lex.bits_ip(b))
    assert t["t"] == "ip" and t["b"] == b
    ln = rng.randint(0, 32)
    t = lex.tok(f"{lex.bits_ip(b)}/{ln}")
    assert t["t"] == "pfx" and t["b"] == b and t["n"] == ln
    v = rng.getrandbits(rng.randint(1, 33))
    t = lex.tok(str(v))
    assert (t["t"] == "n" and lex.unlimbs([t["h"], t["n"]]) == v) or (t["t"] == "big" and v >= 2 ** 32)
for ports in ([1, 2, 3, 7, 9, 10], [5], [], [65534, 65535], [3, 1, 2]):
    r = lex.runs(ports)
    assert [p for lo, hi in r for p in range(lo, hi + 1)] == ports
assert lex.sport_runs("1,3-5") == [[1, 1], [3, 5]]
assert lex.tok("www")["t"] == "w" and lex.tok("256.1.1.1")["t"] == "w" and lex.tok("1.1.1.1/33")["t"] == "pfx"
print("lexer self-check ok")
