"""Purely syntactic conversions between text and the typed values TLC works on.

TLC has no characters and only 32-bit integers, so text crosses the boundary as typed tokens:
addresses are 32-element bit arrays (index 0 = most significant bit), numbers >= 2^31 are limbs.
Nothing here knows what an ACE means.
"""
from __future__ import annotations

import re

RE_IP = re.compile(r"^(\d{1,3})\.(\d{1,3})\.(\d{1,3})\.(\d{1,3})$")
RE_PFX = re.compile(r"^(\d{1,3})\.(\d{1,3})\.(\d{1,3})\.(\d{1,3})/(\d{1,2})$")
RE_NUM = re.compile(r"^\d+$")

Z32 = [0] * 32


def int_bits(n: int, width: int = 32) -> list:
    return [(n >> (width - 1 - i)) & 1 for i in range(width)]


def bits_int(bits) -> int:
    n = 0
    for b in bits:
        n = (n << 1) | int(b)
    return n


def ip_bits(s: str) -> list:
    m = RE_IP.match(s)
    if not m:
        raise ValueError(f"not an address: {s!r}")
    o = [int(x) for x in m.groups()]
    if max(o) > 255:
        raise ValueError(f"not an address: {s!r}")
    return int_bits((o[0] << 24) | (o[1] << 16) | (o[2] << 8) | o[3])


def bits_ip(bits) -> str:
    n = bits_int(bits)
    return ".".join(str((n >> s) & 255) for s in (24, 16, 8, 0))


def limbs(n: int) -> list:
    """Non-negative integer < 2^47 as [hi, lo] base 2^16 (TLC integers are 32 bit)."""
    return [n >> 16, n & 0xFFFF]


def unlimbs(l) -> int:
    return (l[0] << 16) | l[1]


def tok(s: str) -> dict:
    """One whitespace-delimited token -> uniform record {t, s, b, n, h}.
    t = "ip" (b = bits), "pfx" (b = bits, n = length), "n" (number: h = hi limb, n = lo limb),
    "big" (a number that does not fit 2 limbs of 16 bit... i.e. >= 2^32), "w" (any other word)."""
    m = RE_PFX.match(s)
    if m and all(int(x) <= 255 for x in m.groups()[:4]):
        return dict(t="pfx", s=s, b=ip_bits(s.split("/")[0]), n=int(m.group(5)), h=0)
    m = RE_IP.match(s)
    if m and all(int(x) <= 255 for x in m.groups()):
        return dict(t="ip", s=s, b=ip_bits(s), n=0, h=0)
    if RE_NUM.match(s):
        v = int(s)
        if v < 2 ** 32:
            return dict(t="n", s=s, b=[], n=v & 0xFFFF, h=v >> 16)
        return dict(t="big", s=s, b=[], n=0, h=0)
    return dict(t="w", s=s, b=[], n=0, h=0)


def lex(line: str) -> list:
    return [tok(s) for s in line.split()]


def wild_of_text(s: str) -> dict:
    """'A.B.C.D M.M.M.M' -> {base, mask} (bit arrays), no interpretation."""
    a, m = s.split()
    return dict(base=ip_bits(a), mask=ip_bits(m))


def pfx_of_net(net) -> dict:
    """ipaddress.IPv4Network -> {bits, len}."""
    return dict(bits=int_bits(int(net.network_address)), len=net.prefixlen)


def pfx_of_text(s: str) -> dict:
    a, l = s.split("/")
    return dict(bits=ip_bits(a), len=int(l))


def runs(ports) -> list:
    """List of ints -> list of [lo, hi] maximal runs of consecutive ascending values, list order kept
    (run-length encoding only; a non-ascending list gives non-canonical runs which TLC rejects or
    normalises as the property demands)."""
    out = []
    for p in ports:
        if out and p == out[-1][1] + 1:
            out[-1][1] = p
        else:
            out.append([p, p])
    return out


def sport_runs(s: str) -> list:
    """'1,3-5' -> [[1,1],[3,5]] : split on ',' and '-', nothing else."""
    out = []
    for part in s.split(","):
        if not part:
            continue
        if "-" in part:
            a, b = part.split("-", 1)
            out.append([int(a), int(b)])
        else:
            out.append([int(part), int(part)])
    return out


# ---------------------------------------------------------------- concretisation of small model values

def embed_bits(model_bits, offset: int, background: int, low_fill: int) -> list:
    """Embed a W-bit model vector into 32 bits: model bit i (0 = most significant) goes to real bit
    position offset+i (counted from the most significant end); bits above come from `background`,
    bits below the window are all `low_fill`."""
    w = len(model_bits)
    bg = int_bits(background)
    out = []
    for i in range(32):
        if i < offset:
            out.append(bg[i])
        elif i < offset + w:
            out.append(int(model_bits[i - offset]))
        else:
            out.append(low_fill)
    return out


class Window:
    """Address window: how a small-model wildcard becomes a real one.

    low_wild=True : all real bits below the window are wildcard bits (mask 1, base 0) so a contiguous
                    model mask stays contiguous;
    low_wild=False: all real bits below the window are fixed (mask 0, base from background), so every
                    wild model bit is a non-contiguous real bit."""

    def __init__(self, offset, background, low_wild, w=3):
        self.offset, self.background, self.low_wild, self.w = offset, background, low_wild, w

    def wild(self, mw) -> dict:
        mask = embed_bits(mw["mask"], self.offset, 0, 1 if self.low_wild else 0)
        bgbits = int_bits(self.background)
        base = []
        for i in range(32):
            if i < self.offset:
                base.append(bgbits[i])
            elif i < self.offset + self.w:
                base.append(int(mw["base"][i - self.offset]))
            else:
                base.append(0 if self.low_wild else bgbits[i])
        return dict(base=base, mask=mask)

    def desc(self):
        return dict(offset=self.offset, background=bits_ip(int_bits(self.background)), low_wild=self.low_wild)


def wild_text(w: dict) -> str:
    return f"{bits_ip(w['base'])} {bits_ip(w['mask'])}"


def unlimbs_base(l, base) -> int:
    return l[0] * base + l[1]
