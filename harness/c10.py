"""C10 - resequencing numbers every line start, start+step, ... and changes nothing else.

spec: Reseq.tla (limb numbers, NumTree / ResequenceF, direct characterisation NumberedFrom)
mc:   MC_Reseq: every tree shape with <= 4 (quick) / 5 (thorough) leaves x old numbering x (start, step) in -1..13
      with Max = 12; limb arithmetic = integer arithmetic
bind: every call TLC prints, concretised with a low and a high number window (Max -> 2^32-1) on Acl (leaves and
      AceGroup blocks), AceGroup and AddrGroup objects, both platforms, followed by a second call on the same live
      object; random full-size histories.  Judge: Trace_C10 (base 65536).
"""
from __future__ import annotations

import json
import random

from harness import core, lex

PROP = "C10"
TRACE_MODULES = ["Trace_C10"]
MAX = 2 ** 32 - 1


def _numtok(line):
    p = line.split()
    if p and p[0].isdigit():
        return int(p[0]), " ".join(p[1:])
    return 0, line


def _leaf(o):
    lseq, rest = _numtok(o.line)
    sig = f"{o.uuid}|{rest}|{o.note!r}"
    inner = getattr(o, "items", None)
    if inner and type(o).__name__ == "AddressAg":     # `group-object NAME` with the referenced group's members loaded: they are
        sig += "|" + repr([(m.line, int(m.sequence)) for m in inner])    # not entries of THIS group, their numbers must stay
    return dict(blk=False, seq=lex.limbs(int(o.sequence)), lseq=lex.limbs(lseq), sig=sig, items=[])


def proj(obj):
    out = []
    for it in obj.items:
        if hasattr(it, "items") and type(it).__name__ == "AceGroup":
            out.append(dict(blk=True, seq=lex.limbs(int(it.sequence)), lseq=[0, 0], sig=f"{it.uuid}|{it.name}|{it.note!r}",
                            items=proj(it)))       # a block may hold blocks
        else:
            out.append(_leaf(it))
    return out


def _block(x, plat):
    """an AceGroup from a (possibly nested) list of lines; inner blocks can only be put in through append()"""
    from cisco_acl import AceGroup
    if all(isinstance(el, str) for el in x):
        return AceGroup(platform=plat, items=list(x), name=x[0])
    g = AceGroup(platform=plat, name="nested")
    for el in x:
        g.append(_block(el, plat) if isinstance(el, list) else AceGroup(platform=plat, items=[el]).items[0])
    return g


def build(job):
    from cisco_acl import Acl, AceGroup, AddrGroup
    plat = job["plat"]
    if job["cls"] == "AddrGroup":
        from cisco_acl import AddressAg
        items = list(job["lines"])
        for k in job.get("inner") or []:     # IOS: a member that references another group, with that group's members loaded
            if plat == "ios" and k < len(items):
                old = items[k].split()[0] if items[k].split()[0].isdigit() else ""
                items[k] = AddressAg(f"{old} group-object INNER{k}".strip(), platform="ios",
                                     items=[f"{10 * (j + 1)} host 10.9.{k}.{j + 1}" for j in range(2)])
        return AddrGroup(name="G", platform=plat, items=items)
    if job["cls"] == "AceGroup":
        return AceGroup(platform=plat, items=list(job["lines"]))
    items = []
    for x in job["lines"]:
        items.append(_block(x, plat) if isinstance(x, list) else x)
    return Acl(name="A", platform=plat, items=items) if items else Acl(f"ip access-list {'extended ' if plat == 'ios' else ''}A", platform=plat)


def exec_job(job):
    events = []
    e = dict(tid=job["tid"], i=0, act="New", s=[0, 0], d=[0, 0], exc="", ret=[0, 0], obs=[])
    try:
        obj = build(job)
        e["obs"] = proj(obj)
    except Exception as ex:  # noqa
        e["exc"] = core.exc_name(ex)
        return [e]
    events.append(e)
    for i, (s, d) in enumerate(job["calls"], start=1):
        e = dict(tid=job["tid"], i=i, act="Resequence", s=lex.limbs(s), d=lex.limbs(d), exc="", ret=[0, 0], obs=[])
        try:
            r = obj.resequence(s, d)
            e["ret"] = lex.limbs(int(r))
        except Exception as ex:  # noqa
            e["exc"] = core.exc_name(ex)
        e["obs"] = proj(obj)
        events.append(e)
    return events


# ------------------------------------------------------------------ cases

def ace_line(k, old):
    pre = f"{old} " if old else ""
    kinds = [f"permit ip host 10.0.{k // 250}.{k % 250 + 1} any", f"remark text {k}", f"deny tcp any any eq {k + 1}",
             f"permit udp 10.{k % 200}.0.0 0.0.255.255 any range {k + 1} {k + 9} log"]
    return pre + kinds[k % len(kinds)]


def member_line(k, old, plat):
    pre = f"{old} " if old else ""
    return pre + (f"10.{k}.0.0/16" if plat == "nxos" else f"10.{k}.0.0 255.255.0.0") if k % 2 else pre + f"host 10.0.0.{k + 1}"


def mk_lines(rng, shape_sizes, old_mode, cls, plat):
    """shape_sizes: list of entry sizes (0 = leaf, k = block of k leaves)."""
    k, lines = 0, []

    def old():
        if old_mode == "none":
            return 0
        if old_mode == "same":
            return 7
        return rng.choice([0, rng.randint(1, 50), rng.randint(1, MAX)])
    for sz in shape_sizes:
        if cls == "AddrGroup":
            for _ in range(max(sz, 1)):
                lines.append(member_line(k, old(), plat)); k += 1
        elif cls == "AceGroup":
            for _ in range(max(sz, 1)):
                lines.append(ace_line(k, old())); k += 1
        elif sz == 0:
            lines.append(ace_line(k, old())); k += 1
        else:
            blk = []
            for j in range(sz):
                blk.append((f"{old()} " if old() else "") + f"remark = BLOCK{k}" if j == 0 else ace_line(k, old())); k += 1
            lines.append(blk)
    return lines


def real_num(v, window):
    if v < 0 or window == "low":
        return v
    return v + (MAX - 12)


def from_tlc(rng, calls, tier, tid0):
    jobs, t = [], tid0
    for c in calls:
        sizes = [(len(e["items"]) if e["blk"] else 0) for e in c["tree"]]
        old_mode = "none" if (not c["tree"] or lex.unlimbs_base(c["tree"][0]["seq"], 4) == 0) else "same"
        s, d = lex.unlimbs_base(c["s"], 4), lex.unlimbs_base(c["d"], 4)
        for window in ("low", "high"):
            for cls in ("Acl", "AceGroup", "AddrGroup"):
                if cls != "Acl" and any(sizes):
                    continue
                plat = rng.choice(["ios", "nxos"])
                s1 = real_num(s, window)
                calls_ = [(s1, d)]
                if rng.random() < 0.3:
                    calls_.append((rng.choice([0, 10, 1, MAX]), rng.choice([1, 10, 0])))
                jobs.append(dict(tid=t, cls=cls, plat=plat, lines=mk_lines(rng, sizes, old_mode, cls, plat), calls=calls_,
                                 origin="tlc", inner=[0] if (cls == "AddrGroup" and rng.random() < 0.3) else []))
                t += 1
    return jobs


def dup_jobs(rng, n, tid0):
    """lines with equal text (repeated separator remarks, duplicate ACEs) renumbered several times with small
    starts/steps, so that new numbers collide with numbers other lines carried before"""
    jobs, t = [], tid0
    for _ in range(n):
        cls = rng.choice(["Acl", "Acl", "AceGroup", "AddrGroup"])
        plat = rng.choice(["ios", "nxos"])
        pool = ["remark ----------", "permit ip any any"] if cls != "AddrGroup" else ["host 10.0.0.1", "host 10.0.0.2"]
        n_ = rng.randint(2, 7)
        texts = [rng.choice(pool) if rng.random() < 0.8 else ace_line(k, 0) if cls != "AddrGroup" else member_line(k, 0, plat)
                 for k in range(n_)]
        lines, k = [], 0
        while k < n_:
            if cls == "Acl" and rng.random() < 0.3:
                sz = rng.randint(1, min(3, n_ - k))
                lines.append(texts[k:k + sz]); k += sz
            else:
                lines.append(texts[k]); k += 1
        calls = [(rng.randint(1, 12), rng.randint(1, 4)) for _k in range(rng.randint(2, 4))]
        jobs.append(dict(tid=t, cls=cls, plat=plat, lines=lines, calls=calls, origin="dup"))
        t += 1
    return jobs


def random_jobs(rng, n, tid0):
    jobs, t = [], tid0
    for _ in range(n):
        cls = rng.choice(["Acl", "Acl", "AceGroup", "AddrGroup"])
        plat = rng.choice(["ios", "nxos"])
        sizes = [rng.choice([0, 0, 1, 2, 3, 5]) if cls == "Acl" else 0 for _k in range(rng.randint(0, 8))]
        nleaves = sum(max(x, 1) for x in sizes)
        calls = []
        for _k in range(rng.randint(1, 4)):
            r = rng.random()
            if r < 0.35 and nleaves > 1:   # aim at the 32-bit boundary: last = Max + delta
                d = rng.choice([1, 2, 10, 1000, rng.randint(1, 10 ** 6)])
                s = MAX + rng.choice([-1, 0, 0, 1, 2, -d]) - d * (nleaves - 1)
            elif r < 0.5:
                s, d = rng.choice([-1, 0, MAX, MAX + 1, MAX - 1, 2 ** 33, -(2 ** 31)]), rng.choice([-1, 0, 1, 10, 2 ** 32])
            else:
                s, d = rng.choice([0, 1, 10, 100, rng.randint(0, MAX)]), rng.choice([0, 1, 10, 100, -5, rng.randint(1, 2 ** 20)])
            calls.append((s, d))
        lines_ = mk_lines(rng, sizes, rng.choice(["none", "same", "mixed"]), cls, plat)
        if cls == "Acl" and rng.random() < 0.15:        # a block inside a block (depth 2 or 3)
            blocks = [k for k, x in enumerate(lines_) if isinstance(x, list)]
            if blocks:
                k = rng.choice(blocks)
                inner = [ace_line(900 + j, 0) for j in range(rng.randint(1, 2))]
                # (one level only: the text of a list with blocks three deep is no longer indented as one section)
                lines_[k] = list(lines_[k]) + [inner] if rng.random() < 0.5 else [inner] + list(lines_[k])
        jobs.append(dict(tid=t, cls=cls, plat=plat, lines=lines_,
                         calls=calls, origin="random", inner=[rng.randint(0, 3)] if (cls == "AddrGroup" and rng.random() < 0.3) else []))
        t += 1
    return jobs


def run(tier, seed):
    rng = random.Random(seed * 49979687 + 10)
    mcs = [core.mc("MC_Reseq", "MC_Reseq" if tier == "quick" else "MC_Reseq_L5"),
           core.apalache("LimbLemma", "Lemma"), core.apalache("LimbLemma", "NoCarry", expect_violation=True)]    # the limb lemma at base 65536
    calls, gen = core.generate("MC_Reseq", "MC_Reseq_gen")
    calls = core.cap(calls, 2500 if tier == "quick" else 24634, random.Random(seed + 5))
    jobs = from_tlc(rng, calls, tier, 1)
    jobs += random_jobs(rng, 3000 if tier == "quick" else 50000, len(jobs) + 1)
    jobs += dup_jobs(rng, 2500 if tier == "quick" else 40000, len(jobs) + 1)
    jobs = [j for j in jobs if not (j["cls"] == "AddrGroup" and not j["lines"])]  # an address group needs a member
    ev_lists = core.pmap(exec_job, jobs)
    events = [e for evs in ev_lists for e in evs]
    verdicts, vstats = core.validate("Trace_C10", events)
    by_tid = {j["tid"]: (j, evs) for j, evs in zip(jobs, ev_lists)}
    out = []
    for v in verdicts:
        j, evs = by_tid[v["tid"]]
        out.append(dict(clause=v["clause"], features=dict(cls=j["cls"], origin=j["origin"]), case=j, events=evs))
    distinct = {json.dumps([j["cls"], j["plat"], j["lines"], j["calls"]]) for j in jobs if j["lines"]}
    cov = dict(
        states=sum(m.get("states", 0) for m in mcs) + gen["states"], transitions=sum(m.get("states", 0) for m in mcs),
        distinct_states=sum(m.get("distinct", 0) for m in mcs),
        traces_validated_against_impl=len(jobs), evaluations=len(events), distinct_nontrivial=len(distinct),
        rule="one trace = one live Acl / AceGroup / AddrGroup and 1..4 resequence(start, step) calls on it with the full "
             "projection (number attribute, number in the rendered text, uuid, text, note of every entry; block "
             "structure) after each call; sources: the calls TLC prints in MC_Reseq_gen (tree shape x old numbering x "
             "start x step), each under a low and a high number window (model Max 12 -> 2^32-1), plus seeded random "
             "histories aimed at the 2^32 boundary, negative and huge arguments, lists of equal lines renumbered repeatedly, "
             "blocks inside blocks, IOS group-object members with loaded inner members; non-trivial = object has at least one "
             "line; distinct = distinct (class, platform, lines, calls)",
        samples=[dict(job=jobs[i], events=ev_lists[i]) for i in (0, len(jobs) // 2, len(jobs) - 1)],
        model_checking=mcs, generation=gen, trace_validation=vstats, exhaustive=False,
        checker_cmd="tlc MC_Reseq (P_Numbers, P_Clear, P_Return, P_Only, P_Range, P_Errors, L_Limb); tlc Trace_C10",
    )
    return dict(verdicts=out, coverage=cov, level="model_checking",
                assumptions=["groups without items are outside the domain (the property says non-empty groups)",
                             "after a call that raises, a partial renumbering may remain (only 'nothing but numbers "
                             "changed' is required then)",
                             "arguments are Python ints with |value| < 2^46 (limb pairs in TLC)"])


def replay(path):
    with open(path) as f:
        r = json.load(f)
    core._init_worker(core.REPO)
    job = r["case"]
    job["calls"] = [tuple(c) for c in job["calls"]]
    evs = exec_job(job)
    verdicts, _ = core.validate("Trace_C10", evs, nchunks=1)
    for v in verdicts:
        print("REPLAY verdict:", v)
    print("REPLAY events:", len(evs))
    return 1 if verdicts else 0
