"""C13 - address containment answers equal true set containment.

spec: AddrSem.tla (SubW, Cover, PfxCovered), AddrText.tla (token grammar), AddrObj.tla (relations)
mc:   MC_AddrSem (SubW = set containment on all pairs), MC_AddrObj (615 440 operand pairs incl. groups)
bind: every pair TLC enumerates over 27 wildcards + groups, embedded through address windows, in every
      spelling, on both platforms, through Address.subnet_of / AddressAg.subnet_of / `in` member / `in`
      group; random 32-bit pairs derived by single-bit edits.  Judge: Trace_C13 at W = 32, which parses
      the operands' meaning from the input tokens itself.
"""
from __future__ import annotations

import json
import random

from harness import core, lex

PROP = "C13"
TRACE_MODULES = ["Trace_C13"]


# ------------------------------------------------------------------ spellings (format only)

def is_low_run(mask):
    """mask bits (msb first) are zeros followed by ones."""
    seen_one = False
    for b in mask:
        if b:
            seen_one = True
        elif seen_one:
            return False
    return True


def spellings_ace(w, plat):
    """Texts the ACE-address grammar offers for wildcard w (base assumed clean)."""
    out = [lex.wild_text(w)]
    if sum(w["mask"]) == 0:
        out += ["host " + lex.bits_ip(w["base"]), lex.bits_ip(w["base"]) + "/32"]
    if sum(w["mask"]) == 32:
        out += ["any", "0.0.0.0/0"]
    elif is_low_run(w["mask"]):
        out.append(f"{lex.bits_ip(w['base'])}/{32 - sum(w['mask'])}")
    return out


def spellings_member(w, plat):
    """Texts of the address-group member grammar; None if the platform cannot say it."""
    out = []
    contig = is_low_run(w["mask"])
    if plat == "nxos":
        out.append(lex.wild_text(w))
        if contig:
            out.append(f"{lex.bits_ip(w['base'])}/{32 - sum(w['mask'])}")
    else:
        if not contig or sum(w["mask"]) == 32:
            return []
        if sum(w["mask"]) > 0:
            out.append(f"{lex.bits_ip(w['base'])} {lex.bits_ip([1 - b for b in w['mask']])}")
        out.append(f"{lex.bits_ip(w['base'])}/{32 - sum(w['mask'])}")
    if sum(w["mask"]) == 0:
        out.append("host " + lex.bits_ip(w["base"]))
    return out


def clean(w):
    return dict(base=[b & (1 - m) for b, m in zip(w["base"], w["mask"])], mask=list(w["mask"]))


# ------------------------------------------------------------------ execution

def _mk(cls, text, mem, plat):
    from cisco_acl import Address, AddressAg
    c = Address if cls == "Address" else AddressAg
    if mem is None:
        return c(text, platform=plat)
    return c(text, platform=plat, items=list(mem))


def _mk_after_group(job, side):
    """a member object; with job['was_group'] naming this side it first referenced another group (with that group's members
    loaded) and was then given its present text through the line setter - what it was before must not matter"""
    text = job["btext"] if side == "b" else job["ttext"]
    if side in (job.get("was_group") or "") and job["plat"] == "ios":
        from cisco_acl import AddressAg
        o = AddressAg("group-object OLD", platform="ios", items=list(job["old_members"]))
        o.line = text
        return o
    return _mk("AddressAg", text, None, job["plat"])


def exec_job(job):
    e = dict(tid=job["tid"], i=0, act=job["act"], cls=job.get("cls", "AddressAg"), plat=job["plat"],
             btoks=lex.lex(job["btext"]), bmem=[lex.lex(t) for t in (job.get("bmem") or [])],
             ttoks=lex.lex(job.get("ttext", "")), tmem=[lex.lex(t) for t in (job.get("tmem") or [])],
             exc="", ret=False)
    try:
        if job["act"] == "SubnetOf":
            b = _mk(job["cls"], job["btext"], job.get("bmem"), job["plat"])
            t = _mk(job["cls"], job["ttext"], job.get("tmem"), job["plat"])
        elif job["act"] == "In":
            b = _mk_after_group(job, "b")
            t = _mk_after_group(job, "t")
        else:
            from cisco_acl import AddrGroup
            b = _mk_after_group(job, "b")
            t = AddrGroup(name="G", platform=job["plat"], items=list(job["tmem"]))
    except Exception as ex:  # noqa
        e["act"], e["exc"] = "Build", core.exc_name(ex)
        return [e]
    try:
        if job["act"] == "SubnetOf":
            e["ret"] = bool(b.subnet_of(t))
        else:
            e["ret"] = bool(b in t)
    except Exception as ex:  # noqa
        e["exc"] = core.exc_name(ex)
    events = [e]
    # histories: members of a group operand are edited IN PLACE on the live objects, then the same query
    # is asked again; the event carries the member texts the harness has applied so far (bookkeeping only)
    bmem, tmem = list(job.get("bmem") or []), list(job.get("tmem") or [])
    for k, m in enumerate(job.get("muts") or [], start=1):
        obj, mem = (b, bmem) if m["side"] == "b" else (t, tmem)
        e2 = dict(e, i=k, exc="", ret=False)
        try:
            if m["op"] == "append":
                obj.items.append(_mk(job["cls"], m["text"], None, job["plat"]))
                mem.append(m["text"])
            elif m["op"] == "del":
                del obj.items[m["idx"]]
                del mem[m["idx"]]
            elif m["op"] == "setline":
                obj.items[m["idx"]].line = m["text"]
                mem[m["idx"]] = m["text"]
            e2["bmem"], e2["tmem"] = [lex.lex(x) for x in bmem], [lex.lex(x) for x in tmem]
            e2["ret"] = bool(b.subnet_of(t))
        except Exception as ex:  # noqa
            e2["exc"] = core.exc_name(ex)
        events.append(e2)
    return events


# ------------------------------------------------------------------ cases

def windows(tier):
    ws = [lex.Window(8, 0x0A000000, True), lex.Window(21, 0xC0A80000 | 0x00051000, False)]
    if tier == "thorough":
        ws += [lex.Window(0, 0, True), lex.Window(29, 0xAC10FE00, True), lex.Window(13, 0x64400000, False)]
    return ws


def operand_texts(rng, o, win, cls, plat, all_spellings):
    """model operand -> list of (text, members) in the given class' grammar."""
    def sp(w):
        f = spellings_ace if cls == "Address" else spellings_member
        s = f(clean(win.wild(w)), plat)
        return s if all_spellings else ([rng.choice(s)] if s else [])
    if o["k"] == "wild":
        return [(t, None) for t in sp(o["w"])]
    mems = []
    for m in o["members"]:
        s = sp(m)
        if not s:
            return []
        mems.append(rng.choice(s))
    name = ("addrgroup G" if plat == "nxos" else "object-group G") if cls == "Address" else "group-object G"
    if cls == "AddressAg" and plat == "nxos":
        return []  # nested group members do not exist on nxos
    return [(name, mems)]


def from_pairs(rng, pairs, tier, tid0):
    jobs, t = [], tid0
    for pr in pairs:
        for win in windows(tier):
            for cls in ("Address", "AddressAg"):
                for plat in ("ios", "nxos"):
                    bs = operand_texts(rng, pr["b"], win, cls, plat, tier == "thorough")
                    ts = operand_texts(rng, pr["t"], win, cls, plat, False)
                    for bt, bm in bs:
                        for tt, tm in ts:
                            jobs.append(dict(tid=t, act="SubnetOf", cls=cls, plat=plat, btext=bt, bmem=bm, ttext=tt,
                                             tmem=tm, origin="tlc"))
                            t += 1
                            if cls == "AddressAg" and bm is None and tm is None:
                                jobs.append(dict(tid=t, act="In", plat=plat, btext=bt, ttext=tt, origin="tlc"))
                                t += 1
                            if cls == "AddressAg" and bm is None and tm:
                                jobs.append(dict(tid=t, act="InGroup", plat=plat, btext=bt, tmem=tm, origin="tlc"))
                                t += 1
    return jobs


def rand_w(rng):
    k = rng.choice([0, 0, 0, 1, 2, 4])
    low = rng.randint(0, 32 - k) if k < 32 else 0
    mask = [0] * (32 - low) + [1] * low
    free = [i for i in range(0, max(0, 32 - low - 1))]
    for i in rng.sample(free, min(k, len(free))):
        mask[i] = 1
    return clean(dict(base=[rng.randint(0, 1) for _ in range(32)], mask=mask))


def nc_count(mask):
    m = list(mask)
    while m and m[-1] == 1:
        m.pop()
    return sum(m)


def edit(rng, w):
    """single-bit edits that produce near-containment pairs (at most 6 non-contiguous bits, so that
    neither the library nor TLC expands more than 64 networks)"""
    for _ in range(20):
        w2 = _edit(rng, w)
        if nc_count(w2["mask"]) <= 6:
            return w2
    return w


def _edit(rng, w):
    w2 = dict(base=list(w["base"]), mask=list(w["mask"]))
    i = rng.randrange(32)
    r = rng.random()
    if r < 0.4:
        w2["mask"][i] ^= 1
    elif r < 0.8:
        w2["base"][i] ^= 1
    else:  # widen the low run
        j = 31
        while j >= 0 and w2["mask"][j] == 1:
            j -= 1
        if j >= 0:
            w2["mask"][j] = 1
    return clean(w2)


def random_jobs(rng, n, tid0):
    jobs, t = [], tid0
    for _ in range(n):
        a = rand_w(rng)
        b = edit(rng, a) if rng.random() < 0.8 else rand_w(rng)
        if rng.random() < 0.5:
            a, b = b, a
        plat = rng.choice(["ios", "nxos"])
        cls = rng.choice(["Address", "AddressAg"])
        f = spellings_ace if cls == "Address" else spellings_member
        sa, sb = f(a, plat), f(b, plat)
        if not sa or not sb:
            continue
        bt, tt = rng.choice(sa), rng.choice(sb)
        r = rng.random()
        if r < 0.5:
            jobs.append(dict(tid=t, act="SubnetOf", cls=cls, plat=plat, btext=bt, bmem=None, ttext=tt, tmem=None, origin="random"))
        elif r < 0.7 and cls == "AddressAg":
            jobs.append(dict(tid=t, act="In", plat=plat, btext=bt, ttext=tt, origin="random"))
        else:
            # groups: top (and sometimes bottom) is a group whose members surround `b`
            mems = []
            for _k in range(rng.randint(0, 4)):
                m = rng.choice([edit(rng, b), edit(rng, a), rand_w(rng), b])
                sm = f(m, plat)
                if sm:
                    mems.append(rng.choice(sm))
            if cls == "AddressAg":
                if rng.random() < 0.6 or plat == "nxos":
                    if mems:
                        jobs.append(dict(tid=t, act="InGroup", plat=plat, btext=bt, tmem=mems, origin="random"))
                    else:
                        continue
                else:
                    jobs.append(dict(tid=t, act="SubnetOf", cls=cls, plat=plat, btext=bt, bmem=None,
                                     ttext="group-object G", tmem=mems, origin="random"))
            else:
                name = "addrgroup G" if plat == "nxos" else "object-group G"
                if rng.random() < 0.5:
                    bm = [rng.choice(f(edit(rng, a), plat)) for _k in range(rng.randint(0, 3))]
                    muts, nb, nt = [], len(bm), len(mems)
                    for _k in range(rng.randint(0, 3)):
                        side = rng.choice("bt")
                        n_ = nb if side == "b" else nt
                        op = rng.choice(["append", "del", "setline"]) if n_ else "append"
                        m_ = rng.choice([edit(rng, a), edit(rng, b), rand_w(rng), a])
                        mu = dict(op=op, side=side, text=rng.choice(f(m_, plat)), idx=rng.randrange(n_) if n_ else 0)
                        if op == "append":
                            nb, nt = (nb + 1, nt) if side == "b" else (nb, nt + 1)
                        if op == "del":
                            nb, nt = (nb - 1, nt) if side == "b" else (nb, nt - 1)
                        muts.append(mu)
                    jobs.append(dict(tid=t, act="SubnetOf", cls=cls, plat=plat, btext=name.replace("G", "B"), bmem=bm,
                                     ttext=name, tmem=mems, muts=muts, origin="random-history"))
                else:
                    jobs.append(dict(tid=t, act="SubnetOf", cls=cls, plat=plat, btext=bt, bmem=None, ttext=name,
                                     tmem=mems, origin="random"))
        t += 1
    return jobs


def pieces_jobs(rng, n, tid0):
    """bottom = a wildcard with 2..3 non-contiguous wild bits; top = a group whose members are pieces of the bottom
    (the bottom with those bits fixed to some of the 2^k values: all of them, all but one, the two extremes, a random
    subset) - only the complete set of pieces contains the bottom"""
    jobs, t = [], tid0
    for _ in range(n):
        plat = rng.choice(["ios", "nxos"])
        k = rng.choice([2, 2, 3])
        low = rng.randint(0, 24)
        mask = [0] * (32 - low) + [1] * low
        pos = rng.sample(range(0, 32 - low - 1), k)
        for i in pos:
            mask[i] = 1
        b = clean(dict(base=[rng.randint(0, 1) for _ in range(32)], mask=mask))
        vals = list(range(2 ** k))
        how = rng.choice(["all", "all-but-one", "extremes", "subset", "all"])
        if how == "all-but-one":
            vals.remove(rng.choice(vals))
        elif how == "extremes":
            vals = [0, 2 ** k - 1]
        elif how == "subset":
            vals = rng.sample(vals, rng.randint(1, len(vals)))
        order = sorted(pos)
        mems = []
        for v in vals:
            m = dict(base=list(b["base"]), mask=list(b["mask"]))
            for j, i in enumerate(order):
                m["mask"][i] = 0
                m["base"][i] = (v >> (k - 1 - j)) & 1
            mems.append(m)
        rng.shuffle(mems)
        cls = rng.choice(["Address", "Address", "AddressAg"]) if plat == "nxos" else "Address"
        f = spellings_ace if cls == "Address" else spellings_member
        mt = [rng.choice(f(m, plat)) for m in mems]
        bt = rng.choice(f(b, plat))
        if cls == "Address":
            name = "addrgroup G" if plat == "nxos" else "object-group G"
            jobs.append(dict(tid=t, act="SubnetOf", cls=cls, plat=plat, btext=bt, bmem=None, ttext=name, tmem=mt, origin="pieces"))
        else:
            jobs.append(dict(tid=t, act="InGroup", plat=plat, btext=bt, tmem=mt, origin="pieces"))
        t += 1
    return jobs


def run(tier, seed):
    rng = random.Random(seed * 15485863 + 13)
    mcs = [core.mc("MC_AddrSem", "MC_AddrSem" if tier == "quick" else "MC_AddrSem_W4"), core.mc("MC_AddrObj"),
           # SubW = set containment at the real width 32, symbolically (Apalache), with its vacuity guard
           core.apalache("WildLemma", "Lemma"), core.apalache("WildLemma", "MasksOnly", expect_violation=True)]
    pairs, gen = core.generate("MC_AddrObj", "MC_AddrObj_gen")
    if tier == "quick":
        rs = random.Random(seed + 3)
        pairs = [p for p in pairs if rs.random() < 0.8]
    jobs = from_pairs(rng, pairs, tier, 1)
    jobs += random_jobs(rng, 10000 if tier == "quick" else 60000, len(jobs) + 1)
    jobs += pieces_jobs(rng, 600 if tier == "quick" else 20000, len(jobs) + 1)
    for j in jobs:     # some members were references to another group before they got their present text
        if j["act"] in ("In", "InGroup") and j["plat"] == "ios" and rng.random() < 0.3:
            j["was_group"] = rng.choice(["b", "t", "bt"]) if j["act"] == "In" else "b"
            j["old_members"] = rng.choice([["host 10.1.1.1"], ["10.0.0.0 255.0.0.0", "host 192.168.1.1"], ["0.0.0.0 128.0.0.0", "128.0.0.0 128.0.0.0"]])
    jobs = core.cap(jobs, 40000 if tier == "quick" else 400000, rng)
    ev_lists = core.pmap(exec_job, jobs)
    events = [e for evs in ev_lists for e in evs]
    verdicts, vstats = core.validate("Trace_C13", events)
    by_tid = {j["tid"]: (j, evs) for j, evs in zip(jobs, ev_lists)}
    out = []
    for v in verdicts:
        j, evs = by_tid[v["tid"]]
        out.append(dict(clause=v["clause"], features=dict(act=j["act"], cls=j.get("cls", "AddressAg"), origin=j["origin"]),
                        case=j, events=evs))
    distinct = {json.dumps([j["act"], j.get("cls"), j["plat"], j["btext"], j.get("bmem"), j.get("ttext"), j.get("tmem")])
                for j in jobs if j["btext"] != j.get("ttext")}
    cov = dict(
        states=sum(m.get("states", 0) for m in mcs) + gen["states"],
        transitions=sum(m.get("states", 0) for m in mcs),
        distinct_states=sum(m.get("distinct", 0) for m in mcs),
        traces_validated_against_impl=len(jobs), evaluations=len(events), distinct_nontrivial=len(distinct),
        rule="one trace = one containment query on freshly built objects: bottom.subnet_of(top) for Address and "
             "AddressAg (plain or group with members), member in member, member in AddrGroup; operands from every "
             "pair TLC prints in MC_AddrObj_gen (27 wildcards over 3 bits + 5 groups) embedded through address "
             "windows and spelled in every (thorough) / one random (quick) native or foreign spelling on both "
             "platforms, plus seeded random 32-bit pairs derived by single-bit edits, a non-contiguous wildcard against a "
             "group of all / all but one / the two extreme / some of its pieces, and members that referenced another group "
             "(with members loaded) before they got their present text; non-trivial = the two operand "
             "texts differ; distinct = distinct (query, class, platform, texts, members)",
        samples=[dict(job=jobs[i], events=ev_lists[i]) for i in (0, len(jobs) // 2, len(jobs) - 1)],
        model_checking=mcs, generation=gen, trace_validation=vstats, exhaustive=False,
        checker_cmd="tlc MC_AddrSem (L_SubW, L_Cover, ...), MC_AddrObj (L_Contained, L_LibExact, L_LibSound, L_Verdict, "
                    "L_Pinned); tlc Trace_C13 (W=32)",
    )
    return dict(verdicts=out, coverage=cov, level="model_checking",
                assumptions=["`group in group` and `member containing a group` are outside the property's observation "
                             "points and are not queried",
                             "nested group-object members are given their member list directly (items=...)"])


def replay(path):
    with open(path) as f:
        r = json.load(f)
    core._init_worker(core.REPO)
    evs = exec_job(r["case"])
    verdicts, _ = core.validate("Trace_C13", evs, nchunks=1)
    for v in verdicts:
        print("REPLAY verdict:", v)
    print("REPLAY events:", len(evs))
    return 1 if verdicts else 0
