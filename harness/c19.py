"""C19 - splitting multi-port entries keeps the meaning (histories on a live Acl; see harness/aclhist.py, spec AclSem.tla, Trace_Acl.tla)."""
import random

from harness import core, aclhist

PROP = "C19"
TRACE_MODULES = ["Trace_Acl"]
WEIGHTS = dict(UngroupPorts=8, SetPlatform=4, Group=2, Append=2, Insert=1, Resequence=1, Reparse=1)


def run(tier, seed):
    rng = random.Random(seed * 256203161 + 19)
    mcs = [core.mc("MC_Acl", "MC_Acl" if tier == "quick" else "MC_Acl_4"), core.mc("MC_Acl", "MC_Acl_deep"),
           core.mc("MC_Acl", "MC_Acl_deviation", expect_violation="P_C19_DeviationExists")]
    n = 1500 if tier == "quick" else 12000
    jobs = [aclhist.make_history(rng, t, WEIGHTS, nops=rng.randint(1, 4), plat="ios", zero_ports=True) for t in range(1, n + 1)]
    aclhist.fill_permutations(rng, jobs)
    tjobs, gen = aclhist.tlc_histories(tier, seed, len(jobs) + 1, want={"UngroupPorts"}, cap=1500 if tier == "quick" else 20000)
    jobs += [j for j in tjobs if j["lines"]]
    return aclhist.run_histories("C19", jobs, tier, mcs, "behaviours enumerated by TLC (MC_Acl_gen: every rule list of <= 3 items x 2 operations) replayed on a live object, plus a seeded operation mix dominated by ungroup_ports() and conversion to NX-OS on IOS lists with eq / neq entries of 1..4 ports on either or both sides", gens=[gen])


def replay(path):
    return aclhist.replay_history(path)
