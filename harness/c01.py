"""C01 - parsing an ACE keeps its meaning (fields and re-rendered text); also binds C06 at ACE level.

spec: AceText.tla (independent reader ParseAce, writer RenderCanon, NativeAce), AceSem / PortSem / AddrSem / Names
mc:   MC_AceText: reader inverts writer on 30 420 abstract entries x 2 platforms; MC_AddrSem, MC_PortSem lemmas
bind: seeded ACE texts assembled from slot alternatives (action, every protocol spelling, address spellings incl.
      dirty bases / foreign prefixes / non-contiguous masks / groups, every operator with numbers and platform
      names, 1..10 operands, flag and log tails, sequence numbers up to 2^32-1, whitespace variants) on
      ios / nxos x version tables x (port_nr, protocol_nr).  Judge: Trace_C01 reads the INPUT tokens itself.
"""
from __future__ import annotations

import json
import random

from harness import core, lex, proj
from harness.c13 import spellings_ace, clean
from harness.shadow import rand_w, FLAGS

PROP = "C01"
TRACE_MODULES = ["Trace_C01"]
VERSIONS = [("", 0), ("15.2(02)SY", 15), ("16.09.06", 16), ("9.3(8)", 9)]


def exec_job(job):
    from cisco_acl import Ace
    kw = dict(platform=job["plat"], version=job["ver"], port_nr=job["port_nr"], protocol_nr=job["protocol_nr"])
    e = dict(tid=job["tid"], i=0, act="Parse", plat=job["plat"], vmajor=job["vmajor"], port_nr=job["port_nr"],
             protocol_nr=job["protocol_nr"], toks=lex.lex(job["line"]), exc="", dirty=False)
    try:
        if job.get("first"):      # history: an object that held another entry is given the line
            a = Ace(job["first"], **kw)
            _ = a.line
            a.line = job["line"]
        else:
            a = Ace(job["line"], **kw)
        e["obs"], e["data"] = proj.ace(a), proj.digest(a)
    except Exception as ex:  # noqa
        e["exc"] = core.exc_name(ex)
        return [e]
    for key, src in (("re", a.line), ("re2", None)):
        r = dict(exc="", line=[], data="", obs=e["obs"])
        try:
            text = src if src is not None else prev_line
            b = Ace(text, **kw)
            r["line"], r["data"], r["obs"] = lex.lex(b.line), proj.digest(b), proj.ace(b)
            prev_line = b.line
        except Exception as ex:  # noqa
            r["exc"] = core.exc_name(ex)
            prev_line = a.line
        e[key] = r
    return [e]


# ------------------------------------------------------------------ text assembly (syntax only)

_TABLES = {}


def tables():
    if not _TABLES:
        core._init_worker(core.REPO)
        from cisco_acl.port_name import PortName
        from cisco_acl import protocol as pr
        for plat in ("ios", "nxos"):
            for ver, vm in VERSIONS:
                for proto in ("tcp", "udp"):
                    _TABLES[(plat, vm, proto)] = PortName(protocol=proto, platform=plat, version=ver).names()
        _TABLES["protos"] = sorted(set(pr.PROTOCOLS_IOS) | set(pr.PROTOCOLS_NXOS) | set(pr.PROTOCOLS_ASA))
    return _TABLES


def dirty(rng, w):
    """same wildcard, base bits set under the mask"""
    return dict(base=[b if m == 0 else rng.randint(0, 1) for b, m in zip(w["base"], w["mask"])], mask=w["mask"])


def addr_text(rng, plat, allow_group=True):
    r = rng.random()
    if allow_group and r < 0.08:
        return ("addrgroup" if plat == "nxos" else "object-group") + " " + rng.choice(["G1", "NAME-2", "a_b.c"])
    w = rand_w(rng, maxnc=4)
    sp = spellings_ace(w, plat)
    if rng.random() < 0.25:       # dirty base under the mask (wildcard spelling / prefix with host bits)
        d = dirty(rng, w)
        sp = [lex.wild_text(d)]
        low = sum(w["mask"])
        if all(m == (1 if i >= 32 - low else 0) for i, m in enumerate(w["mask"])) and low < 32:
            sp.append(f"{lex.bits_ip(d['base'])}/{32 - low}")
    return rng.choice(sp)


def port_text(rng, plat, vm, proto):
    if proto not in ("tcp", "udp") or rng.random() < 0.35:
        return ""
    names = tables()[(plat, vm, proto)]
    op = rng.choice(["eq", "eq", "neq", "lt", "gt", "range"])

    def operand():
        if rng.random() < 0.4 and names:
            nm = rng.choice(sorted(names))
            return rng.choice([nm, str(names[nm])])
        return str(rng.choice([1, 2, 65534, 65535, rng.randint(1, 65535), rng.randint(1, 1024)]))
    if op in ("lt", "gt"):
        n = 1
    elif op == "range":
        n = 2
    else:
        n = rng.choice([1, 1, 2, 3, 5, 10]) if plat == "ios" else 1
    ops = [operand() for _ in range(n)]
    return op + " " + " ".join(ops)


def ace_text(rng, plat, vm):
    protos = tables()["protos"]
    if plat == "ios" and rng.random() < 0.06:      # standard entry (no protocol): action, one address in any accepted spelling, log
        w = rand_w(rng, maxnc=2)
        sp = spellings_ace(w, plat) + ([lex.bits_ip(w["base"])] if sum(w["mask"]) == 0 else [])
        seq = rng.choice(["", "", "20", "4294967295"])
        return " ".join(x for x in [seq, rng.choice(["permit", "deny"]), rng.choice(sp), rng.choice(["", "log", "log"])] if x)
    r = rng.random()
    if r < 0.45:
        ptxt, pname = rng.choice([("tcp", "tcp"), ("6", "tcp"), ("udp", "udp"), ("17", "udp")])
    elif r < 0.75:
        ptxt = rng.choice(protos)
        pname = ptxt if ptxt in ("tcp", "udp") else ""
    else:
        n = rng.randint(0, 255)
        ptxt, pname = str(n), {6: "tcp", 17: "udp"}.get(n, "")
    seq = rng.choice(["", "", "10", "1", "4294967295", str(rng.randint(1, 2 ** 32 - 1))])
    fl = rng.sample(FLAGS, rng.choice([0, 0, 1, 2, 6])) if pname == "tcp" else []
    if pname == "tcp" and rng.random() < 0.1:
        fl = ["established"]
    if rng.random() < 0.08:      # an option with an argument; the argument may be spelled like a port name
        names = sorted(tables()[(plat, vm, pname or "tcp")])
        fl = fl + [rng.choice(["time-range", "dscp", "precedence"]), rng.choice(["ftp", "time", "domain", "af11", "workhours"] + names[:3])]
    parts = [seq, rng.choice(["permit", "deny"]), ptxt, addr_text(rng, plat), port_text(rng, plat, vm, pname),
             addr_text(rng, plat), port_text(rng, plat, vm, pname), " ".join(fl), rng.choice(["", "", "log", "log-input"])]
    toks = [p for p in parts if p]
    sep = rng.choice([" ", " ", "  ", " \t "])
    line = sep.join(toks)
    if rng.random() < 0.2:
        line = "  " + line + " "
    return line


def std_text(rng, plat):
    w = rand_w(rng, maxnc=2)
    sp = [s for s in spellings_ace(w, plat) if "/" not in s]
    if sum(w["mask"]) == 0:
        sp.append(lex.bits_ip(w["base"]))
    seq = rng.choice(["", "10", "4294967295"])
    return " ".join(x for x in [seq, rng.choice(["permit", "deny"]), rng.choice(sp), rng.choice(["", "log"])] if x)


def run(tier, seed):
    rng = random.Random(seed * 122949829 + 1)
    mcs = [core.mc("MC_AceText"), core.mc("MC_PortSem"), core.mc("MC_AddrSem")]
    n = 12000 if tier == "quick" else 100000
    jobs = []
    for t in range(1, n + 1):
        plat = rng.choice(["ios", "nxos"])
        ver, vm = rng.choice(VERSIONS)
        line = std_text(rng, plat) if (plat == "ios" and rng.random() < 0.06) else ace_text(rng, plat, vm)
        job = dict(tid=t, plat=plat, ver=ver, vmajor=vm, port_nr=rng.random() < 0.4, protocol_nr=rng.random() < 0.4,
                   line=line, origin="slots")
        if rng.random() < 0.25:
            job["first"] = std_text(rng, plat) if (plat == "ios" and rng.random() < 0.5) else ace_text(rng, plat, vm)
            job["origin"] = "reassigned-line"
        jobs.append(job)
    hits, vstats, n_events, samples = core.exec_validate(exec_job, jobs, "Trace_C01", batch=4000)
    out = []
    for v, j, evs in hits:
        if v["clause"].startswith("C06."):
            continue          # reported by C06's own check (same trace specification)
        out.append(dict(clause=v["clause"], features=dict(plat=j["plat"], vmajor=j["vmajor"]), case=j, events=evs))
    distinct = {json.dumps([j["plat"], j["vmajor"], j["port_nr"], j["protocol_nr"], j["line"].split(), j.get("first")]) for j in jobs}
    cov = dict(
        states=sum(m.get("states", 0) for m in mcs), transitions=sum(m.get("states", 0) for m in mcs),
        distinct_states=sum(m.get("distinct", 0) for m in mcs),
        traces_validated_against_impl=len(jobs), evaluations=n_events, distinct_nontrivial=len(distinct),
        rule="one trace = one Ace(line, platform, version, port_nr, protocol_nr) construction with the projection of every "
             "typed field, the expanded networks, the lexed rendered line, and two re-parses of the rendered line; "
             "lines are assembled from slot alternatives: optional sequence number (incl. 2^32-1), action, protocol as "
             "any platform's keyword or any number 0..255, addresses in every spelling (any, host, wildcard contiguous "
             "and non-contiguous, prefix, dirty base bits, zero / all-ones wildcard, named groups), port expressions "
             "with every operator and 1..10 operands spelled as numbers or as names of the platform/version table, "
             "TCP flag words, log keywords, whitespace variants; standard-ACL lines on IOS; non-trivial = every case "
             "(each is a full entry); distinct = distinct (settings, token sequence)",
        samples=[dict(job=j_, events=e_) for j_, e_ in samples],
        model_checking=mcs, trace_validation=vstats, exhaustive=False,
        checker_cmd="tlc MC_AceText (L_RoundTrip, L_NxosRejects), MC_PortSem, MC_AddrSem; tlc Trace_C01 (W=32, PMax=65535)",
    )
    return dict(verdicts=out, coverage=cov, level="model_checking", assumptions=[
        "the 'state space' explored by TLC for C01 is the input grammar of the model instance (reader/writer lemma); "
        "there is no object history in this property",
        "inputs are assembled from slot alternatives by the harness and are re-read from their tokens by the "
        "specification; an input the specification does not read as an entry is a machinery failure, not a pass"])


def replay(path):
    with open(path) as f:
        r = json.load(f)
    core._init_worker(core.REPO)
    evs = exec_job(r["case"])
    verdicts, _ = core.validate("Trace_C01", evs, nchunks=1)
    for v in verdicts:
        print("REPLAY verdict:", v)
    print("REPLAY line:", r["case"]["line"], "->", " ".join(t["s"] for t in evs[0].get("obs", {}).get("line", [])), evs[0]["exc"])
    return 1 if verdicts else 0
