"""C18 - generated port / protocol ranges cover exactly the requested set.

spec: RangeGen.tla (request language, refusals, postcondition PostPorts), AceText reader, PortSem intervals
mc:   MC_PortSem (interval semantics = sets; Canon / union), MC_AceText (reader)
bind: seeded requests (singles, ranges, repeats, overlaps, adjacency at chunk boundaries) x side(s) x template operator
      (none / eq / and the refused gt, lt, range) x tcp/udp x port_count 0..4 x both range policies x platform x
      names/numbers through range_ports(); protocol requests over 0..255 through range_protocols().  Judge: Trace_C18.
"""
from __future__ import annotations

import json
import random

from harness import core, lex
from harness.c13 import spellings_ace
from harness.shadow import rand_w

PROP = "C18"
TRACE_MODULES = ["Trace_C18"]


def req_items(text):
    out = []
    for part in text.split(","):
        if not part:
            continue
        if "-" in part:
            a, b = part.split("-")
            out.append(dict(lo=int(a), hi=int(b), single=False))
        else:
            out.append(dict(lo=int(part), hi=int(part), single=True))
    return out


def exec_job(job):
    import cisco_acl
    e = dict(tid=job["tid"], i=0, act=job["act"], plat=job["plat"], tpl=lex.lex(job["line"]), exc="", out=[], nsrc=0,
             srcreq=req_items(job.get("srcports", "")), dstreq=req_items(job.get("dstports", "")), port_count=job.get("port_count", 1) or 0,
             port_range=job.get("port_range", True), port_nr=job.get("port_nr", False), protocol_nr=job.get("protocol_nr", False),
             protoreq=req_items(job.get("protocols", "")))
    try:
        if job["act"] == "Ports":
            kw = dict(line=job["line"], platform=job["plat"], port_nr=job["port_nr"], port_count=job["port_count"], port_range=job["port_range"])
            res = cisco_acl.range_ports(srcports=job.get("srcports", ""), dstports=job.get("dstports", ""), **kw)
            if job.get("srcports") and job.get("dstports"):
                e["nsrc"] = len(cisco_acl.range_ports(srcports=job["srcports"], dstports="", **kw))
            elif job.get("srcports"):
                e["nsrc"] = len(res)
        else:
            res = cisco_acl.range_protocols(protocols=job["protocols"], line=job["line"], platform=job["plat"], protocol_nr=job["protocol_nr"])
        e["out"] = [lex.lex(s) for s in res]
    except Exception as ex:  # noqa
        e["exc"] = core.exc_name(ex)
    return [e]


def rand_request(rng, hi=65535):
    parts = []
    base = rng.choice([1, 20, 79, 1000, hi - 30, rng.randint(1, hi - 40)])
    for _ in range(rng.randint(1, 6)):
        r = rng.random()
        a = min(hi, base + rng.randint(0, 12))
        if r < 0.6:
            parts.append(str(a))
        else:
            b = min(hi, a + rng.choice([0, 1, 2, 5, 20]))
            parts.append(f"{a}-{b}")
        if rng.random() < 0.15:
            parts.append(parts[-1])          # repeated item
    return ",".join(parts)


def template(rng, plat, proto, op_side):
    """tcp/udp template; op_side: (src_op, dst_op) each '' | eq | gt | lt | range"""
    def pe(op):
        return {"": "", "eq": "eq 7", "gt": "gt 7", "lt": "lt 7", "range": "range 5 7"}[op]
    s = rng.choice(spellings_ace(rand_w(rng, 1), plat))
    d = rng.choice(spellings_ace(rand_w(rng, 1), plat))
    if plat == "ios":
        s, d = (x if "/" not in x else "any" for x in (s, d))
    tail = rng.choice(["", "log", "ack log", "syn"]) if proto == "tcp" else rng.choice(["", "log"])
    seq = rng.choice(["", "", "10"])
    return " ".join(x for x in [seq, rng.choice(["permit", "deny"]), proto, s, pe(op_side[0]), d, pe(op_side[1]), tail] if x)


def run(tier, seed):
    rng = random.Random(seed * 353868019 + 18)
    mcs = [core.mc("MC_PortSem"), core.mc("MC_AceText")]
    jobs, t = [], 1
    for _ in range(5000 if tier == "quick" else 80000):
        plat = rng.choice(["ios", "ios", "nxos"])
        proto = rng.choice(["tcp", "udp"])
        ops = rng.choice([("", ""), ("", ""), ("eq", ""), ("", "eq"), ("eq", "eq"), ("gt", ""), ("", "lt"), ("range", ""), ("", "range")])
        side = rng.choice(["src", "dst", "dst", "both"])
        job = dict(tid=t, act="Ports", plat=plat, line=template(rng, plat, proto, ops), port_nr=rng.random() < 0.5,
                   port_count=rng.choice([0, 1, 1, 2, 3, 4]), port_range=rng.random() < 0.6, origin="random")
        if side in ("src", "both"):
            job["srcports"] = rand_request(rng)
        if side in ("dst", "both"):
            job["dstports"] = rand_request(rng)
        jobs.append(job); t += 1
    for _ in range(1200 if tier == "quick" else 15000):
        plat = rng.choice(["ios", "nxos"])
        proto = rng.choice(["ip", "tcp", "udp", "icmp", "47"])
        ops = rng.choice([("", ""), ("eq", "eq"), ("", "eq")]) if proto in ("tcp", "udp") else ("", "")
        line = template(rng, plat, proto, ops) if proto in ("tcp", "udp") else template(rng, plat, "tcp", ("", "")).replace(" tcp ", f" {proto} ").replace(" ack", "").replace(" syn", "")
        jobs.append(dict(tid=t, act="Protocols", plat=plat, line=line, protocols=rand_request(rng, hi=255).replace("-", "-"), protocol_nr=rng.random() < 0.5,
                         origin="random")); t += 1
    ev_lists = core.pmap(exec_job, jobs)
    events = [e for evs in ev_lists for e in evs]
    verdicts, vstats = core.validate("Trace_C18", events)
    by_tid = {j["tid"]: (j, evs) for j, evs in zip(jobs, ev_lists)}
    out = []
    for v in verdicts:
        j, evs = by_tid[v["tid"]]
        out.append(dict(clause=v["clause"], features=dict(act=j["act"], plat=j["plat"]), case=j,
                        events=[dict(exc=evs[0]["exc"], out=[" ".join(x["s"] for x in ln) for ln in evs[0]["out"]])]))
    distinct = {json.dumps({k: v for k, v in j.items() if k != "tid"}, sort_keys=True) for j in jobs}
    cov = dict(
        states=sum(m.get("states", 0) for m in mcs), transitions=sum(m.get("states", 0) for m in mcs),
        distinct_states=sum(m.get("distinct", 0) for m in mcs),
        traces_validated_against_impl=len(jobs), evaluations=len(events), distinct_nontrivial=len(distinct),
        rule="one trace = one call of range_ports() (source, destination or both sides) or range_protocols(); requests are "
             "comma lists of 1..6 singles and a-b ranges clustered so that items are adjacent / overlapping / repeated, near "
             "1 and near 65535 (255 for protocols); templates are tcp/udp entries with random addresses, optional "
             "sequence number and flag/log tail, with no operator, eq, or one of the refused operators gt / lt / range on "
             "either side; port_count 0..4, both range policies, both platforms, names or numbers; every case is "
             "non-trivial; distinct = distinct argument sets",
        samples=[dict(job=jobs[i], events=[dict(exc=ev_lists[i][0]["exc"], out=[" ".join(x["s"] for x in ln) for ln in ev_lists[i][0]["out"]])])
                 for i in (0, len(jobs) // 2, len(jobs) - 1)],
        model_checking=mcs, trace_validation=vstats, exhaustive=False,
        checker_cmd="tlc MC_PortSem, MC_AceText; tlc Trace_C18 (PMax=65535)",
    )
    return dict(verdicts=out, coverage=cov, level="model_checking", assumptions=[
        "templates with operator neq are outside the domain (the property lists eq / range / no operator); a template with "
        "range, gt or lt must be refused",
        "on NX-OS a request that needs several eq ports in one line may be refused or may be served by single-port lines",
        "the explored 'state space' for C18 is the interval-semantics and reader lemmas; requests are seeded samples"])


def replay(path):
    with open(path) as f:
        r = json.load(f)
    core._init_worker(core.REPO)
    evs = exec_job(r["case"])
    verdicts, _ = core.validate("Trace_C18", evs, nchunks=1)
    for v in verdicts:
        print("REPLAY verdict:", v)
    print("REPLAY:", json.dumps(r["case"]), evs[0]["exc"], [" ".join(x["s"] for x in ln) for ln in evs[0]["out"]])
    return 1 if verdicts else 0
