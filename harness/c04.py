"""C04 - deleting shadowed entries never changes a decision (histories on a live Acl; see harness/aclhist.py, spec AclSem.tla, Trace_Acl.tla)."""
import random

from harness import core, aclhist

PROP = "C04"
TRACE_MODULES = ["Trace_Acl"]
WEIGHTS = dict(DeleteShadow=8, Shading=3, ShadowOf=2, EditMembers=3, Group=1, Ungroup=1, Resequence=1, SetPlatform=1, Reverse=1)


def run(tier, seed):
    rng = random.Random(seed * 198491317 + 4)
    mcs = [core.mc("MC_Acl", "MC_Acl" if tier == "quick" else "MC_Acl_4"), core.mc("MC_Acl", "MC_Acl_deep")]
    n = 1800 if tier == "quick" else 15000
    jobs = [aclhist.make_history(rng, t, WEIGHTS, nops=rng.randint(1, 5)) for t in range(1, n + 1)]
    aclhist.fill_permutations(rng, jobs)
    tjobs, gen = aclhist.tlc_histories(tier, seed, len(jobs) + 1, want={"DeleteShadow"}, cap=1500 if tier == "quick" else 20000)
    jobs += [j for j in tjobs if j["lines"]]
    return aclhist.run_histories("C04", jobs, tier, mcs, "behaviours enumerated by TLC (MC_Acl_gen: every rule list of <= 3 items x 2 operations) replayed on a live object, plus a seeded operation mix dominated by shading queries and shadow removal (each removal is followed by a second one that must find nothing), on lists with duplicates, covers and interleaved deny rules", gens=[gen])


def replay(path):
    return aclhist.replay_history(path)
