"""Driver for histories of public operations on ONE live Acl object (serves C02, C04, C11 report, C15, C16, C17, C19).

Records after every call the full projection of the object (settings, identifiers, notes, numbers, typed fields,
lexed lines, block structure) plus the call's return value / exception; Trace_Acl.tla judges every step.
"""
from __future__ import annotations

import json
import random

from harness import core, lex, proj
from harness.shadow import random_pair, rand_w, narrow_w
from harness.c13 import spellings_ace

# ------------------------------------------------------------------ projection

DUMMY_F = dict(act="", proto=0, src=dict(k="wild", w=proj.ZW, name="", mem=[]), dst=dict(k="wild", w=proj.ZW, name="", mem=[]),
               sp=dict(op="", items=[], ports=[]), dp=dict(op="", items=[], ports=[]), flags=[], logs=[])


def _addr(a):
    d = proj.addr(a)
    d["mem"] = [lex.wild_of_text(m.wildcard) for m in a.items if getattr(m, "wildcard", "")] if a.type == "addrgroup" else []
    return d


def _note(n):
    return "" if n in (None, "") else str(n)


PREFIXES = ["= ", "== ", "=", "=== "]     # the grouping prefixes in play (str.startswith is recorded, not interpreted)


def leaf(x):
    if type(x).__name__ == "Remark":
        return dict(kind="remark", id=x.uuid, note=_note(x.note), seq=lex.limbs(int(x.sequence)), f=DUMMY_F, text=x.text.split(),
                    rtext=x.text, heads=[p for p in PREFIXES if x.text.startswith(p)], line=lex.lex(x.line), items=[])
    f = dict(act=x.action, proto=x.protocol.number, src=_addr(x.srcaddr), dst=_addr(x.dstaddr), sp=proj.port(x.srcport),
             dp=proj.port(x.dstport), flags=list(x.option.flags), logs=list(x.option.logs))
    return dict(kind="ace", id=x.uuid, note=_note(x.note), seq=lex.limbs(int(x.sequence)), f=f, text=[], rtext="", heads=[],
                line=lex.lex(x.line), items=[])


def item(x):
    if type(x).__name__ == "AceGroup":
        return dict(kind="block", id=x.uuid, note=_note(x.note), seq=lex.limbs(int(x.sequence)), f=DUMMY_F, text=[], rtext=x.name,
                    heads=[], line=[], items=[leaf(y) for y in x.items])
    return leaf(x)


def leaves_of(acl):
    out = []
    for it in acl.items:
        out.extend(it.items if type(it).__name__ == "AceGroup" else [it])
    return out


def obs_acl(acl, vmajor, ver):
    from cisco_acl import Acl
    lines = [x.line for x in leaves_of(acl)]
    header = acl.line.split("\n")[0]
    body_ok = acl.line.split("\n")[1:] == [acl.indent + s for s in lines] or (not lines and acl.line.split("\n")[1:] in ([], [""]))
    hdr_toks = header.split()
    want_hdr = ["ip", "access-list"] + ([acl.type] if acl.platform == "ios" else []) + ([acl.name] if acl.name else [])
    re_ok = True
    if lines:
        try:
            again = Acl(acl.line, platform=acl.platform, version=ver, port_nr=acl.port_nr, protocol_nr=acl.protocol_nr,
                        indent=acl.indent)
            # group members are not part of the text: carry them over by name for the comparison of text only
            re_ok = again.line == acl.line
        except Exception:  # noqa
            re_ok = False
    return dict(plat=acl.platform, vmajor=vmajor, typ=acl.type, name=acl.name, grp_by=acl.group_by, port_nr=bool(acl.port_nr),
                protocol_nr=bool(acl.protocol_nr), id=acl.uuid, note=_note(acl.note), items=[item(x) for x in acl.items],
                text_is_header_plus_lines=bool(body_ok and hdr_toks == want_hdr), reparse_same_text=bool(re_ok))


def mutable_ids(acl):
    """identities of every mutable sub-object reachable from an Acl (for the aliasing test of copies)"""
    ids = {id(acl.items), id(acl.input), id(acl.output)}
    for x in leaves_of(acl):
        ids.add(id(x))
        if type(x).__name__ == "Ace":
            for sub in (x.protocol, x.srcaddr, x.dstaddr, x.srcport, x.dstport, x.option):
                ids.add(id(sub))
            for a in (x.srcaddr, x.dstaddr):
                ids.add(id(a.items))
                ids.update(id(m) for m in a.items)
            for p in (x.srcport, x.dstport):
                ids.update({id(p.items), id(p.ports)})
            ids.update({id(x.option.flags), id(x.option.logs)})
    for x in acl.items:
        ids.add(id(x))
        if type(x).__name__ == "AceGroup":
            ids.add(id(x.items))
    return ids


def report_pairs(report, acl_lines):
    """report {top line: [bottom lines]} -> [[top position, bottom position]] among the ACE lines (1-based)"""
    pairs, used = [], set()
    for top, bots in report.items():
        ti = next((i for i, s in enumerate(acl_lines) if s == top), None)
        if ti is None:
            pairs.append([0, 0])
            continue
        for b in bots:
            bi = next((i for i, s in enumerate(acl_lines) if s == b and i > ti and i not in used), None)
            if bi is None:
                pairs.append([ti + 1, 0])
            else:
                used.add(bi)
                pairs.append([ti + 1, bi + 1])
    return pairs


# ------------------------------------------------------------------ execution of one history

BASE = dict(tid=0, exc="", ret_int=0, ret_num=[0, 0], flag=False, plat="", s=[0, 0], d=[0, 0], prefix="", perm=[], idx=0,
            skip=[], pairs=[], typ="", lines_distinct=True, same_as_shading_before=True, expect_empty=False, twin_text_equal=True,
            twin_data_equal=True, shared_mutables=0, recorded=False, has_want=False, want=[], refuse=False, unrender=False)

def member_line(text, plat):
    """the ACE spelling of an address as a line of an address-group section (format conversion only); None when the platform's
    group grammar cannot say it"""
    from harness.c13 import is_low_run
    t = text.split()
    if t[0] == "host":
        return text
    if t == ["any"]:
        return "0.0.0.0/0" if plat == "nxos" else None
    if len(t) == 1 and "/" in t[0]:
        return text if plat == "nxos" else None
    if len(t) == 2:
        if plat == "nxos":
            return text
        mask = lex.ip_bits(t[1])
        if not is_low_run(mask) or sum(mask) == 32:
            return None
        return f"{t[0]} {lex.bits_ip([1 - b for b in mask])}"
    return None


def config_text(job):
    """a device configuration holding the job's groups and its ACL (None when some member cannot be written as a group line)"""
    plat, out = job["plat"], []
    for name, mems in job.get("groups", {}).items():
        lines = [member_line(m, plat) for m in mems]
        if any(x is None for x in lines):
            return None
        out.append((f"object-group ip address {name}" if plat == "nxos" else f"object-group network {name}"))
        out += [" " + x for x in lines]
    out.append(job["header"])
    out += [" " + x for x in job["lines"]]
    return "\n".join(out) + "\n"


def exec_history(job):
    from cisco_acl import Acl, Ace, Remark, Address
    kw = dict(platform=job["plat"], version=job["ver"], port_nr=job.get("port_nr", False), protocol_nr=job.get("protocol_nr", False),
              max_ncwb=job.get("max_ncwb", 16))
    vm = job["vmajor"]
    events = []
    base = dict(BASE, tid=job["tid"])
    e = dict(base, i=0, act="New")
    try:
        cfg_text = config_text(job) if job.get("attach") == "acls" else None
        if cfg_text is not None:
            # the list comes out of cisco_acl.acls(configuration): the LIBRARY attaches the members of the configured groups;
            # the event states which members the configuration gives every entry (token lists, read by the specification)
            import cisco_acl
            got = cisco_acl.acls(cfg_text, group_by=job.get("group_by", ""), **kw)
            if len(got) != 1:
                return []
            acl = got[0]
            acl.note = job.get("note", "")
            e["has_want"] = True
            e["want"] = []
            for x in leaves_of(acl):
                if type(x).__name__ == "Ace":
                    e["want"].append([[lex.lex(m) for m in job["groups"].get(a.addrgroup, [])] if a.type == "addrgroup" else []
                                      for a in (x.srcaddr, x.dstaddr)])
                else:
                    e["want"].append([[], []])
        else:
            acl = Acl("\n".join([job["header"]] + job["lines"]), group_by=job.get("group_by", ""), note=job.get("note", ""), **kw)
        # attach members of named address groups and notes (user-supplied annotations)
        k = 0
        for x in leaves_of(acl):
            if type(x).__name__ == "Ace":
                for a in (x.srcaddr, x.dstaddr):
                    if cfg_text is None and a.type == "addrgroup" and a.addrgroup in job.get("groups", {}):
                        # the way cisco_acl.acls() attaches members: Address objects of the ACL's platform and version
                        mem_objs = [Address(m, platform=job["plat"], version=job["ver"]) for m in job["groups"][a.addrgroup]]
                        if job.get("attach") == "append":     # exactly what acls() does: append to the live member list
                            a.items.extend(mem_objs)
                        else:
                            a.items = mem_objs
            if job.get("notes"):
                x.note = f"n{k}"
            k += 1
        e["obs"] = obs_acl(acl, vm, job["ver"])
    except Exception as ex:  # noqa
        e["exc"], e["obs"] = core.exc_name(ex), None
        return []   # a seed ACL that cannot be built is a generator problem: dropped (counted by the caller)
    e["twin"] = e["obs"]
    events.append(e)
    twin = None
    last_shading = None
    for i, op in enumerate(job["ops"], start=1):
        e = dict(base, i=i, act=op["act"])
        ace_lines = [x.line for x in leaves_of(acl) if type(x).__name__ == "Ace"]
        e["lines_distinct"] = len(set(ace_lines)) == len(ace_lines)
        try:
            a = op["act"]
            if a == "SetPlatform":
                e["plat"] = op["plat"]
                acl.platform = op.get("plat_spelled", op["plat"])      # documented aliases of the platform name
            elif a == "SetPortNr":
                e["flag"] = op["flag"]
                acl.port_nr = op["flag"]
            elif a == "SetProtocolNr":
                e["flag"] = op["flag"]
                acl.protocol_nr = op["flag"]
            elif a == "SetType":
                e["typ"] = op["typ"]
                acl.type = op["typ"]
            elif a == "UngroupPorts":
                acl.ungroup_ports()
            elif a == "Resequence":
                e["s"], e["d"] = lex.limbs(op["s"]), lex.limbs(op["d"])
                e["ret_num"] = lex.limbs(int(acl.resequence(op["s"], op["d"])))
            elif a == "Group":
                e["prefix"] = op["prefix"]
                acl.group(op["prefix"])
            elif a == "Ungroup":
                acl.ungroup()
            elif a == "Sort":
                acl.sort()
            elif a == "Reverse":
                acl.reverse()
            elif a == "Permute":
                e["perm"] = op["perm"]
                if len(op["perm"]) == len(acl.items):
                    acl.items = [acl.items[k - 1] for k in op["perm"]]
                else:
                    e["perm"] = list(range(1, len(acl.items) + 1))
                    acl.items = list(acl.items)
            elif a == "Pop":
                e["idx"] = op["idx"]
                acl.pop(op["idx"] - 1)
            elif a in ("Append", "Insert"):
                text = op.get("line_std", op["line"]) if acl.type == "standard" else op["line"]   # an entry of the list's own type
                cls = Remark if text.split()[0] == "remark" or (text.split()[0].isdigit() and text.split()[1] == "remark") else Ace
                obj = cls(text, platform=acl.platform, version=job["ver"], port_nr=acl.port_nr, protocol_nr=acl.protocol_nr,
                          type=acl.type) if cls is Ace else cls(text, platform=acl.platform, version=job["ver"])
                if a == "Append":
                    acl.append(obj)
                else:
                    e["idx"] = op["idx"]
                    acl.insert(op["idx"] - 1, obj)
            elif a == "EditEntry":
                # a public in-place edit of one entry: an address that names a group is re-pointed to a plain address
                # (op["refuse"]: the new text is one the address grammar refuses - prefix length 33, octet 400, more non-contiguous
                # bits than the limit -: the edit must raise and leave the entry, hence the list, exactly as it was)
                for x in leaves_of(acl):
                    if type(x).__name__ == "Ace":
                        for ad in (x.srcaddr, x.dstaddr):
                            if (ad.type == "addrgroup" and ad.items) or (op.get("refuse") and x.type == "extended"):
                                e["refuse"] = bool(op.get("refuse"))      # an edit is attempted
                                ad.line = op["text"]
                                break
            elif a == "EditMembers":
                # the members of the first named group are edited in place (append / delete / re-point one member): no line
                # of the ACL changes, its meaning does
                # (a group is one thing: every address of the list that names it gets the same edit)
                target = None
                for x in leaves_of(acl):
                    if type(x).__name__ != "Ace":
                        continue
                    for ad in (x.srcaddr, x.dstaddr):
                        if ad.type == "addrgroup" and (target is None or ad.addrgroup == target):
                            target = ad.addrgroup
                            if op["how"] == "append" or not ad.items:
                                ad.items.append(Address(op["text"], platform=acl.platform, version=job["ver"]))
                            elif op["how"] == "del":
                                del ad.items[op["idx"] % len(ad.items)]
                            else:
                                ad.items[op["idx"] % len(ad.items)].line = op["text"]
            elif a == "TcamCount":
                e["ret_int"] = int(acl.tcam_count())
            elif a == "DeleteNote":
                acl.delete_note()
            elif a in ("Shading", "ShadowOf", "DeleteShadow"):
                e["skip"] = list(op.get("skip") or [])
                e["expect_empty"] = bool(op.get("expect_empty"))
                if a == "Shading":
                    rep = acl.shading(op.get("skip"))
                elif a == "ShadowOf":
                    rep0 = acl.shading(op.get("skip"))
                    lst = acl.shadow_of(op.get("skip"))
                    rep = rep0
                    e["same_as_shading_before"] = lst == [s for ls in rep0.values() for s in ls]
                else:
                    before = acl.shading(op.get("skip"))
                    rep = acl.delete_shadow(op.get("skip"))
                    e["same_as_shading_before"] = rep == before
                e["pairs"] = report_pairs(rep, ace_lines)
            elif a in ("Copy", "DataRoundTrip", "Reparse"):
                if a == "Copy":
                    twin = acl.copy()
                elif a == "DataRoundTrip":
                    twin = Acl(**acl.data())
                else:
                    twin = Acl(acl.line, group_by=acl.group_by, **dict(kw, platform=acl.platform, port_nr=acl.port_nr, protocol_nr=acl.protocol_nr))
                    for x, y in zip(leaves_of(acl), leaves_of(twin)):     # members are not text: carry them over by position
                        if type(x).__name__ == "Ace" and type(y).__name__ == "Ace":
                            for ax, ay in ((x.srcaddr, y.srcaddr), (x.dstaddr, y.dstaddr)):
                                if ax.type == "addrgroup" and ay.type == "addrgroup":
                                    ay.items = [m.line for m in ax.items]
                e["twin_text_equal"] = twin.line == acl.line
                e["twin_data_equal"] = proj.digest(twin) == proj.digest(acl)
                e["shared_mutables"] = len(mutable_ids(acl) & mutable_ids(twin))
            elif a == "TwinOp":
                if twin is not None:
                    t = op["op"]
                    if t == "platform":
                        twin.platform = "nxos" if twin.platform == "ios" else "ios"
                    elif t == "resequence":
                        twin.resequence(5, 5)
                    elif t == "pop" and twin.items:
                        twin.items.pop()
                    elif t == "note":
                        for x in leaves_of(twin):
                            x.note = "changed"
                    elif t == "members":
                        for x in leaves_of(twin):
                            if type(x).__name__ == "Ace":
                                for ad in (x.srcaddr, x.dstaddr):
                                    if ad.type == "addrgroup":
                                        ad.items.append(type(ad)("host 9.9.9.9", platform=twin.platform))
                    elif t == "ports":
                        for x in leaves_of(twin):
                            if type(x).__name__ == "Ace" and x.srcport.operator == "eq":
                                x.srcport.items.append(7)
                                x.srcport.ports.append(7)
                    elif t == "line":
                        for x in leaves_of(twin)[:1]:
                            x.line = "permit ip host 9.9.9.9 any"
                    elif t == "delete_shadow":
                        twin.delete_shadow()
                    elif t == "sort":
                        twin.sort()
        except Exception as ex:  # noqa
            e["exc"] = core.exc_name(ex)
        try:
            e["obs"] = obs_acl(acl, vm, job["ver"])
            e["twin"] = obs_acl(twin, vm, job["ver"]) if twin is not None else e["obs"]
        except Exception as ex:  # noqa   the object can no longer be rendered: that is itself an observation
            e["exc"] = "Unrenderable:" + core.exc_name(ex)
            e["unrender"] = True
            e["obs"] = events[-1]["obs"]
            e["twin"] = events[-1]["twin"]
            events.append(e)
            break
        events.append(e)
    return events


# ------------------------------------------------------------------ seed ACLs and operation sequences (syntax only)

HEADINGS = ["= H1", "= H2", "= H3", "== X"]


def seed_acl(rng, plat, n=None, numbered=None, groups=True, headings=True, multi=True, std=False, zero_ports=False):
    """returns (header, lines, groups dict)"""
    n = n if n is not None else rng.randint(1, 9)
    lines, gdict = [], {}
    pool = []
    while len(pool) < n:
        b, t = random_pair(rng, plat, groups=False)
        for x in (t, b):
            pool.append(x["line"])
        if rng.random() < 0.3:
            pool.append(rng.choice(pool))       # exact duplicate
    rng.shuffle(pool) if rng.random() < 0.3 else None
    pool = [native_only(ln, plat) for ln in pool]
    if plat == "ios":      # a port listed twice (by number and by name, or repeated) is still one port
        pool = [dup_port(rng, ln) if rng.random() < 0.12 else ln for ln in pool]
        if zero_ports:     # only where nothing depends on whether port 0 belongs to the universe (C19: the split itself)
            pool = [zero_port(rng, ln) if rng.random() < 0.08 else ln for ln in pool]
    for k, ln in enumerate(pool[:n]):
        if headings and rng.random() < 0.25:
            lines.append("remark " + rng.choice(HEADINGS + ["plain note", "= H1, details"]))
        if groups and rng.random() < 0.15:
            # replace the source by a named group with members
            parts = ln.split()
            name = rng.choice(["GA", "GB"])
            w = rand_w(rng)
            gdict.setdefault(name, [rng.choice(spellings_ace(m, plat)) for m in [w, narrow_w(rng, w)][: rng.randint(0, 2)]])
            kwd = "addrgroup" if plat == "nxos" else "object-group"
            name2 = rng.choice(["GA", "GB", "GC"])
            r_ = rng.random()
            if r_ < 0.5:
                ln = f"{parts[0]} ip {kwd} {name} any"
                if rng.random() < 0.4:       # an entry above that covers every member of the group (until a member is added)
                    lines.append(native_only(f"{parts[0]} ip {rng.choice(spellings_ace(w, plat))} any", plat))
            elif r_ < 0.75:
                ln = f"{parts[0]} ip any {kwd} {name}"
            else:
                w2 = rand_w(rng)
                gdict.setdefault(name2, [rng.choice(spellings_ace(m, plat)) for m in [w2, narrow_w(rng, w2), rand_w(rng)][: rng.randint(0, 3)]])
                ln = f"{parts[0]} ip {kwd} {name} {kwd} {name2}"
                if rng.random() < 0.5:     # groups on both sides of an entry with port expressions (several ports on IOS)
                    pp = (lambda: "eq " + " ".join(str(x) for x in sorted(rng.sample([22, 80, 443, 8080, 135, 514], rng.randint(1, 3 if plat == "ios" and multi else 1)))))
                    ln = f"{parts[0]} {rng.choice(['tcp', 'udp'])} {kwd} {name} {pp() if rng.random() < 0.6 else ''} {kwd} {name2} {pp()}".replace("  ", " ")
        lines.append(ln)
        if groups and rng.random() < 0.06:
            # a group of two equal-size neighbouring blocks, followed by an entry for the block just before them
            from harness.shadow import blk
            lnn = rng.randint(8, 30)
            kk = rng.randrange(1, 2 ** min(lnn, 20) - 4)
            nm = rng.choice(["GN", "GM"])
            gdict.setdefault(nm, [rng.choice(spellings_ace(blk(i, lnn), plat)) for i in (kk, kk + 1)])
            if nm in ("GN", "GM") and len(gdict[nm]) == 2:
                kwd = "addrgroup" if plat == "nxos" else "object-group"
                act_ = ln.split()[0] if ln.split()[0] in ("permit", "deny") else "permit"
                lines.append(f"{act_} ip {kwd} {nm} any")
                lines.append(native_only(f"{act_} ip {rng.choice(spellings_ace(blk(kk - 1, lnn), plat))} any", plat))
    if not multi or plat == "nxos":
        pass
    if numbered if numbered is not None else rng.random() < 0.4:
        start, step = rng.choice([(10, 10), (5, 1), (100, 7)])
        lines = [f"{start + i * step} {s}" for i, s in enumerate(lines)]
    header = "ip access-list extended ACL1" if plat == "ios" else "ip access-list ACL1"
    return header, lines, gdict


def dup_port(rng, line):
    t = line.split()
    for k in range(len(t) - 1):
        if t[k] in ("eq", "neq") and t[k + 1].isdigit() and (k + 2 >= len(t) or not t[k + 2].isdigit()):
            return " ".join(t[: k + 2] + [t[k + 1]] + t[k + 2:])
    return line


def zero_port(rng, line):
    """port 0 (valid, reserved) put in front of an eq / neq operand list"""
    t = line.split()
    for k in range(len(t) - 1):
        if t[k] in ("eq", "neq") and t[k + 1].isdigit() and t[k + 1] != "0":
            return " ".join(t[: k + 1] + ["0"] + t[k + 1:])
    return line


def native_only(line, plat):
    """seed ACLs use the platform's own spellings (foreign spellings are C01 / C06 business): on IOS a prefix
    A.B.C.D/len is rewritten as address + wildcard"""
    if plat != "ios":
        return line
    out = []
    for tok in line.split():
        if "/" in tok and tok[0].isdigit():
            a, ln_ = tok.split("/")
            ln_ = int(ln_)
            mask = lex.int_bits(((1 << (32 - ln_)) - 1) if ln_ < 32 else 0)
            base = [b & (1 - m) for b, m in zip(lex.ip_bits(a), mask)]
            out.append("host " + lex.bits_ip(base) if ln_ == 32 else ("any" if ln_ == 0 else f"{lex.bits_ip(base)} {lex.bits_ip(mask)}"))
        else:
            out.append(tok)
    return " ".join(out)


def rand_op(rng, plat_now, weights):
    acts = list(weights)
    a = rng.choices(acts, weights=[weights[k] for k in acts])[0]
    op = dict(act=a)
    if a == "SetPlatform":
        op["plat"] = rng.choice(["ios", "nxos"])
        op["plat_spelled"] = rng.choice({"ios": ["ios", "ios", "cisco_ios"], "nxos": ["nxos", "nxos", "cnx", "cisco_nxos"]}[op["plat"]])
    elif a in ("SetPortNr", "SetProtocolNr"):
        op["flag"] = rng.random() < 0.5
    elif a == "Resequence":
        # refused calls here are refused BEFORE anything is renumbered (C10 owns the overflow half-way case)
        op["s"], op["d"] = rng.choice([(10, 10), (0, 0), (1, 1), (100, 5), (2 ** 32 - 200, 1), (7, 0), (2 ** 32, 1), (20, 20), (-1, 1)])
        if rng.random() < 0.35:      # small starts / steps: new numbers collide with numbers other entries carried before
            op["s"], op["d"] = rng.randint(1, 12), rng.randint(1, 5)
    elif a == "Group":
        op["prefix"] = rng.choice(["= ", "= ", "== ", "=", ""])
    elif a == "Permute":
        op["perm"] = []      # filled at execution time if lengths differ; harness shuffles below
    elif a == "Pop":
        op["idx"] = rng.randint(1, 6)
    elif a in ("Append", "Insert"):
        op["line"] = rng.choice(["permit ip any any", "remark = H9", "deny tcp any any eq 80", "remark added", "permit udp host 10.0.0.1 any"])
        op["line_std"] = rng.choice(["permit host 10.0.0.1", "remark added", "deny 10.1.0.0 0.0.255.255", "remark = H9", "permit any log"])
        op["idx"] = rng.randint(1, 5)
    elif a in ("Shading", "ShadowOf", "DeleteShadow"):
        op["skip"] = rng.choice([None, None, ["addrgroup"], ["nc_wildcard"], ["addrgroup", "nc_wildcard"]])
    elif a == "SetType":
        op["typ"] = rng.choice(["standard", "extended", "extended"])
    elif a == "EditEntry":
        op["text"] = rng.choice(["host 10.1.2.3", "any", "10.0.0.0 0.0.0.255"])
        if rng.random() < 0.4:
            op["refuse"] = True
            op["text"] = rng.choice(["10.0.0.0/33", "host 1.2.3.400", "10.0.0.0 0.0.0.256", "10.0.0.400/24"])
    elif a == "EditMembers":
        w = rand_w(rng)
        op.update(how=rng.choice(["append", "append", "del", "setline"]), idx=rng.randint(0, 3),
                  text=native_only(rng.choice(spellings_ace(rng.choice([w, narrow_w(rng, w)]), plat_now)), plat_now))
    elif a == "TwinOp":
        op["op"] = rng.choice(["platform", "resequence", "pop", "note", "members", "ports", "line", "delete_shadow", "sort"])
    return op


def make_history(rng, tid, weights, nops=None, plat=None, **seedkw):
    plat = plat or rng.choice(["ios", "nxos"])
    ver, vm = rng.choice([("", 0), ("15.2", 15), ("16.9", 16)]) if plat == "ios" else rng.choice([("", 0), ("9.3", 9)])
    header, lines, gdict = seed_acl(rng, plat, **seedkw)
    ops = []
    std = False      # a standard ACL exists on IOS only: converting one to NX-OS is outside the domain
    cur = plat
    for _ in range(nops if nops is not None else rng.randint(1, 8)):
        op = rand_op(rng, plat, weights)
        if op["act"] == "SetType":
            if cur != "ios":
                op["typ"] = "extended"
            std = op["typ"] == "standard"
        if op["act"] == "SetPlatform":
            if std and rng.random() < 0.8:      # (a standard list sent to NX-OS is refused and must stay as it is: sometimes tried)
                op["plat"] = "ios"
            if op.get("plat_spelled") not in {"ios": ["ios", "cisco_ios"], "nxos": ["nxos", "cnx", "cisco_nxos"]}[op["plat"]]:
                op["plat_spelled"] = op["plat"]        # the spelling follows the (possibly adjusted) platform
            cur = op["plat"] if not (std and op["plat"] == "nxos") else cur
        if op["act"] == "Permute":
            op["perm"] = []
        ops.append(op)
        if op["act"] == "DeleteShadow" and rng.random() < 0.7:
            ops.append(dict(act="DeleteShadow", skip=op["skip"], expect_empty=True))
        if op["act"] in ("Shading", "ShadowOf") and "EditMembers" in weights and rng.random() < 0.5:
            # report, then the members of a group change (no line does), then the removal: it must work from the lists as they are now
            ops.append(rand_op(rng, cur, dict(EditMembers=1)))
            ops.append(dict(act="DeleteShadow", skip=op["skip"]))
        if op["act"] == "Copy" or op["act"] == "DataRoundTrip":
            ops.append(dict(act="TwinOp", op=rng.choice(["platform", "resequence", "pop", "note", "members", "ports", "line", "sort"])))
    for name in list(gdict):     # members in the platform's own spellings (a prefix on IOS is a foreign spelling: C06 two-step domain)
        gdict[name] = [native_only(m, plat) for m in gdict[name]]
    for name in list(gdict):     # a group may list an address twice (same or another spelling): still two members
        if gdict[name] and rng.random() < 0.25:
            m0 = rng.choice(gdict[name])
            alt = {"host " + m0.split()[0]: None} if m0.endswith(" 0.0.0.0") else {}
            gdict[name] = gdict[name] + [rng.choice(list(alt) + [m0])]
    return dict(tid=tid, plat=plat, ver=ver, vmajor=vm, header=header, lines=lines, groups=gdict, attach=rng.choice(["set", "append", "acls"]),
                max_ncwb=rng.choice([16, 16, 16, 20, 8, 30]),
                group_by=rng.choice(["", "", "= "]) if seedkw.get("headings", True) else "", notes=rng.random() < 0.5,
                port_nr=rng.random() < 0.3, protocol_nr=rng.random() < 0.3, ops=ops, origin="random-history")


# ------------------------------------------------------------------ histories enumerated by TLC (MC_Acl_gen)

MODEL_LINES = {   # the alphabet of MC_Acl, spelled at full size (the specification re-reads the tokens; only the SHAPE is carried over)
    "a1": "permit tcp any any", "a2": "permit tcp 10.2.0.0 0.0.255.255 any eq 1", "a3": "permit tcp any any eq 1 65535",
    "a4": "deny tcp 10.2.0.0 0.1.255.255 any", "a5": "permit tcp 10.2.0.0 0.1.255.255 any range 1 80", "a6": "permit ip any any",
    "a7": "deny udp any any neq 80", "a8": "permit udp any any neq 1 80", "a9": "permit tcp object-group G any",
    "r1": "remark = H1", "r2": "remark = H2", "r3": "remark note"}
MODEL_OPS = {"UngroupPorts": dict(act="UngroupPorts"), "Group": dict(act="Group", prefix="= "), "Ungroup": dict(act="Ungroup"),
             "DeleteShadow": dict(act="DeleteShadow", skip=None), "Reverse": dict(act="Reverse")}


def tlc_histories(tier, seed, tid0, want=None, cap=None):
    """every (rule list of <= 3 items, 2 operations) behaviour TLC prints from MC_Acl_gen, replayed on a live IOS Acl;
    `want` keeps the behaviours that contain one of the given operations"""
    hs, gen = core.generate("MC_Acl", "MC_Acl_gen")
    if want:
        hs = [h for h in hs if any(o in want for o in h["ops"])]
    hs = core.cap(hs, cap or (2500 if tier == "quick" else 47125), random.Random(seed + 99))
    jobs = []
    for k, h in enumerate(hs):
        lines = [MODEL_LINES[x] for x in h["seed"]]
        ops = []
        for o in h["ops"]:
            ops.append(dict(MODEL_OPS[o]))
            if o == "DeleteShadow":
                ops.append(dict(act="DeleteShadow", skip=None, expect_empty=True))
        ops.append(dict(act="Reparse"))
        jobs.append(dict(tid=tid0 + k, plat="ios", ver="", vmajor=0, header="ip access-list extended M", lines=lines,
                         groups={"G": ["10.2.0.0 0.0.255.255", "10.3.0.0 0.0.255.255"]}, group_by="", notes=bool(k % 2),
                         port_nr=True, protocol_nr=False, ops=ops, origin="tlc-behaviour"))
    return jobs, gen


def dup_histories(rng, n, tid0):
    """lists made of very few different lines (repeated separator remarks, duplicate entries), renumbered several times with
    small starts / steps - new numbers collide with numbers other (equal) lines carried before - with sort / permute /
    group steps in between"""
    jobs = []
    for t in range(tid0, tid0 + n):
        plat = rng.choice(["ios", "nxos"])
        pool = ["remark ----------", "permit ip any any", "permit icmp any any", "remark = H1"]
        m = rng.randint(2, 7)
        lines = [rng.choice(pool[:2]) if rng.random() < 0.75 else rng.choice(pool) for _ in range(m)]
        ops = []
        for _ in range(rng.randint(2, 5)):
            r = rng.random()
            if r < 0.6:
                ops.append(dict(act="Resequence", s=rng.randint(1, 12), d=rng.randint(1, 4)))
            elif r < 0.75:
                ops.append(dict(act="Sort"))
            elif r < 0.9:
                p = list(range(1, m + 1))
                rng.shuffle(p)
                ops += [dict(act="Permute", perm=p), dict(act="Sort")]
            else:
                ops.append(dict(act="Group", prefix="= "))
        header = "ip access-list extended ACL1" if plat == "ios" else "ip access-list ACL1"
        jobs.append(dict(tid=t, plat=plat, ver="", vmajor=0, header=header, lines=lines, groups={}, group_by="", notes=rng.random() < 0.5,
                         port_nr=False, protocol_nr=False, ops=ops, origin="dup-history"))
    return jobs


def fill_permutations(rng, jobs):
    """Permute needs the current length, known only at run time: the executor substitutes identity when lengths differ;
    here we guess the length from the seed (flat ACLs) so that most permutations are real."""
    for j in jobs:
        n = len(j["lines"])
        for op in j["ops"]:
            if op["act"] == "Permute":
                p = list(range(1, n + 1))
                rng.shuffle(p)
                op["perm"] = p
    return jobs


def run_histories(prop, jobs, tier, mcs, extra_rule, gens=None, owners=None):
    traced = set()

    def count(e):          # number of histories that produced at least one event (the others: seed refused by the library)
        traced.add(e["tid"])
        return False
    hits, vstats, n_events, samples = core.exec_validate(exec_history, jobs, "Trace_Acl", batch=3000, count=count)
    vstats.pop("counted", None)
    dropped = len(jobs) - len(traced)
    out = []
    for v, j, evs in hits:
        owner = v["clause"].split(".")[0]
        if not (owner == prop or owner == "machinery" or (owners and owner in owners)):
            continue
        ev = next((x for x in evs if x["i"] == v["i"]), None)
        feats = dict(act=ev["act"] if ev else "?", plat=j["plat"], grouped=bool(j.get("group_by")))
        slim = [dict(i=x["i"], act=x["act"], exc=x["exc"], lines=[" ".join(t["s"] for t in lf["line"]) for it in x["obs"]["items"]
                                                                  for lf in (it["items"] if it["kind"] == "block" else [it])])
                for x in evs[: (v["i"] + 1)]]
        out.append(dict(clause=v["clause"], features=feats, case=j, events=slim))
    distinct = {json.dumps([j["plat"], j["lines"], j["ops"], j.get("group_by")], sort_keys=True) for j in jobs if j["ops"]}
    cov = dict(
        states=sum(m.get("states", 0) for m in mcs) + sum(g["states"] for g in (gens or [])),
        transitions=sum(m.get("states", 0) for m in mcs), distinct_states=sum(m.get("distinct", 0) for m in mcs),
        traces_validated_against_impl=len(jobs) - dropped, evaluations=n_events, distinct_nontrivial=len(distinct),
        seed_acls_rejected_by_library=dropped,
        rule="one trace = one live Acl object built from text (flat or grouped by remark prefix, numbered or not, with "
             "duplicates, covers, interleaved deny rules, multi-port entries, named address groups with members, notes) "
             "followed by a sequence of public operations, with the full projection after every call; " + extra_rule +
             "; non-trivial = at least one operation; distinct = distinct (platform, lines, operations)",
        samples=[dict(job=j_, n_events=len(e_)) for j_, e_ in samples],
        model_checking=mcs, generation=gens or [], trace_validation=vstats, exhaustive=False,
        checker_cmd="tlc MC_Acl (P_C19, P_C04, P_C15; deviation run), lemma modules; tlc Trace_Acl (W=32, PMax=65535)",
    )
    return dict(verdicts=out, coverage=cov, level="model_checking", assumptions=[
        "identifiers and notes are checked for the objects a user holds (the Acl, its Ace / Remark entries); block objects "
        "are compared by structure (regrouping rebuilds them) and component objects inside an Ace are not tracked",
        "when top-level sequence numbers are not all distinct the order produced by sort() is unspecified (any "
        "permutation with blocks intact is accepted)"])


def replay_history(path):
    with open(path) as f:
        r = json.load(f)
    core._init_worker(core.REPO)
    evs = exec_history(r["case"])
    verdicts, _ = core.validate("Trace_Acl", evs, nchunks=1)
    for v in verdicts:
        print("REPLAY verdict:", v)
    for x in evs:
        print("REPLAY", x["i"], x["act"], x["exc"])
    return 1 if verdicts else 0
