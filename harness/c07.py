"""C07 - config-level extraction returns exactly the ACLs, bindings and group members.

spec: Config.tla (sections, Extract, MembersFor), readers of AceText / AddrText
mc:   MC_Config: every configuration of <= 4 sections over an alphabet (two ACLs, a group defined once or twice,
      interfaces binding different ACLs in and out, noise) under every swap of unrelated sections / noise insertion
bind: every configuration TLC prints, rendered with indentation 1..3 and comment lines on both platforms, plus
      seeded random configurations of 3..14 sections, through acls() (all / filtered by names) and addrgroups().
      Judge: Trace_C07, which classifies the sections from their tokens itself.
"""
from __future__ import annotations

import json
import random

from harness import core, lex, aclhist
from harness.c13 import spellings_member
from harness.shadow import rand_w

PROP = "C07"
TRACE_MODULES = ["Trace_C07"]


COMMENTS = ["!", "!", "! ticket 4711", "!note: checked", "!Command: show running-config", "! ip access-list extended ZZ", "!!"]


def render(sections, rng, indent):
    out = []
    for s in sections:
        if rng.random() < 0.3:
            out.append(rng.choice(COMMENTS))
        out.append(s["hs"])
        if rng.random() < 0.05:
            out.append(rng.choice(COMMENTS))
        for b in s["body"]:
            out.append(indent + b)
            if rng.random() < 0.06:
                out.append(rng.choice(COMMENTS))
    return "\n".join(out) + ("\n" if rng.random() < 0.5 else "")


def exec_job(job):
    import cisco_acl
    from harness.aclhist import leaves_of
    e = dict(tid=job["tid"], i=0, act=job["act"], plat=job["plat"], vmajor=0, exc="", filter=job.get("filter", ["*"]), got=[],
             cfg=[dict(head=lex.lex(s["hs"]), hs=s["hs"], body=[lex.lex(b) for b in s["body"]]) for s in job["sections"]])
    if job.get("before_text"):      # an earlier call on another configuration (same process): must not influence this one
        try:
            cisco_acl.acls(job["before_text"], platform=job["plat"])
            cisco_acl.addrgroups(job["before_text"], platform=job["plat"])
        except Exception:  # noqa
            pass
    try:
        if job["act"] == "Acls":
            kw = dict(platform=job["plat"])
            if job.get("filter") != ["*"]:
                kw["names"] = list(job["filter"])
            res = cisco_acl.acls(job["text"], **kw)
            for a in res:
                lv = []
                for x in leaves_of(a):
                    d = dict(line=lex.lex(x.line), srcmem=[], dstmem=[])
                    if type(x).__name__ == "Ace":
                        d["srcmem"] = [lex.wild_of_text(m.wildcard) for m in x.srcaddr.items]
                        d["dstmem"] = [lex.wild_of_text(m.wildcard) for m in x.dstaddr.items]
                    lv.append(d)
                e["got"].append(dict(name=a.name, typ=a.type, input=list(a.input), output=list(a.output), leaves=lv))
        else:
            res = cisco_acl.addrgroups(job["text"], platform=job["plat"])
            for g in res:
                e["got"].append(dict(name=g.name, members=[dict(w=lex.wild_of_text(m.wildcard) if not m.addrgroup else ZWILD, ref=m.addrgroup or "")
                                                           for m in g.items]))
    except Exception as ex:  # noqa
        e["exc"] = core.exc_name(ex)
    return [e]


# ------------------------------------------------------------------ configurations (syntax only)

def member_lines(rng, plat, n):
    out = []
    for k in range(n):
        w = rand_w(rng, maxnc=0 if plat == "ios" else 1)
        sp = [s for s in spellings_member(w, plat) if not (plat == "ios" and "/" in s)]
        if sp:
            m = rng.choice(sp)
            out.append(f"{(k + 1) * 10} {m}" if plat == "nxos" else m)
    return out or ["host 10.0.0.1"]


def acl_section(rng, plat, name, gnames):
    header, lines, _g = aclhist.seed_acl(rng, plat, n=rng.randint(1, 5), groups=False, headings=True)
    kwd = "addrgroup" if plat == "nxos" else "object-group"
    for g in gnames:
        if rng.random() < 0.7:
            lines.insert(rng.randint(0, len(lines)), rng.choice([f"permit ip {kwd} {g} any", f"deny ip any {kwd} {g}",
                                                                  f"permit tcp {kwd} {g} eq 80 {kwd} {gnames[0]}"]))
    typ = "extended"
    hs = f"ip access-list {name}" if plat == "nxos" else f"ip access-list {typ} {name}"
    return dict(hs=hs, body=lines)


ZWILD = dict(base=lex.Z32, mask=lex.Z32)


def group_section(rng, plat, name, others=()):
    hs = (f"object-group ip address {name}" if plat == "nxos" else f"object-group network {name}")
    body = member_lines(rng, plat, rng.randint(1, 4))
    if plat == "ios" and rng.random() < 0.35:     # nested groups (IOS): defined, undefined, itself
        body.insert(rng.randint(0, len(body)), "group-object " + rng.choice(list(others) + [name, "NOPE"]))
    return dict(hs=hs, body=body)


def intf_section(rng, name, acl_names):
    body = [rng.choice(["description x", "no shutdown", "ip address 10.0.0.1 255.255.255.0"])] if rng.random() < 0.6 else []
    for _ in range(rng.choice([0, 1, 1, 2, 2, 3])):
        body.append(f"ip access-group {rng.choice(acl_names)} {rng.choice(['in', 'out'])}")
    rng.shuffle(body)
    return dict(hs=f"interface {name}", body=body)


NOISE = [dict(hs="hostname R1", body=[]), dict(hs="router bgp 65000", body=["neighbor 10.0.0.2 remote-as 65001", "address-family ipv4"]),
         dict(hs="line vty 0 4", body=["transport input ssh"]), dict(hs="ip route 0.0.0.0 0.0.0.0 10.0.0.254", body=[]),
         dict(hs="snmp-server community x ro", body=[]), dict(hs="class-map match-any CM", body=["match access-group name A1"])]


def random_config(rng, plat):
    acl_names = rng.sample(["A1", "B2", "ACL-3", "x_4", "100", "EDGE.V4", "MGMT:SNMP", "DMZ/WEB", "a+b", "MGMT", "Mgmt"], rng.randint(1, 3))
    gnames = rng.sample(["G1", "G2", "NET-3"], rng.randint(1, 2))
    secs = [acl_section(rng, plat, n, gnames) for n in acl_names]
    defined = [g for g in gnames if rng.random() < 0.8]
    for g in defined:
        secs.append(group_section(rng, plat, g, [x for x in defined if x != g]))
    for k in range(rng.randint(0, 4)):
        secs.append(intf_section(rng, rng.choice(["Ethernet1/%d", "GigabitEthernet0/%d", "Vlan%d"]) % (k + 1), acl_names + ["OTHER"]))
    for _ in range(rng.randint(0, 3)):
        secs.append(rng.choice(NOISE))
    rng.shuffle(secs)
    # distinct headers only (a configuration cannot hold the same section twice)
    seen, out = set(), []
    for s in secs:
        if s["hs"] in seen:
            continue
        seen.add(s["hs"])
        out.append(s)
    return out, acl_names


def from_model(rng, cfgs, plat):
    """sections of MC_Config's alphabet -> text blocks"""
    kwd = "addrgroup" if plat == "nxos" else "object-group"
    jobs = []
    for c in cfgs:
        secs = []
        gcount = 0
        for s in c["cfg"]:
            if s["kind"] == "acl":
                name = s["name"]
                hs = f"ip access-list {name}" if plat == "nxos" else f"ip access-list extended {name}"
                body = ["remark = H1", f"permit ip {kwd} G any", "deny tcp any any eq 80"] if name == "A" else [f"permit ip any {kwd} G", f"permit ip {kwd} H any"]
                secs.append(dict(hs=hs, body=body))
            elif s["kind"] == "group":
                gcount += 1
                secs.append(dict(hs=(f"object-group ip address G" if plat == "nxos" else "object-group network G"),
                                 body=member_lines(rng, plat, len(s["body"]))))
            elif s["kind"] == "intf":
                secs.append(dict(hs="interface " + s["name"], body=[f"ip access-group {b[0]} {b[1]}" for b in s["binds"]] + ["no shutdown"]))
            else:
                secs.append(dict(hs="router ospf 1", body=["network 10.0.0.0 0.0.0.255 area 0"]))
        # duplicate group headers in one text merge in an indentation dictionary: keep the model's intent by making the second
        # definition a separate header spelling is impossible -> such configs are rendered as they are (domain: distinct headers)
        if gcount > 1:
            continue
        jobs.append((secs, ["A", "B"]))
    return jobs


def run(tier, seed):
    rng = random.Random(seed * 314606869 + 7)
    mcs = [core.mc("MC_Config")]
    cfgs, gen = core.generate("MC_Config", "MC_Config_gen")
    cfgs = core.cap(cfgs, 700 if tier == "quick" else 3011, random.Random(seed + 7))
    jobs, t = [], 1
    sources = []
    for plat in ("ios", "nxos"):
        sources += [(plat, s, names, "tlc") for s, names in from_model(rng, cfgs, plat)]
    for _ in range(4000 if tier == "quick" else 60000):
        plat = rng.choice(["ios", "nxos"])
        s, names = random_config(rng, plat)
        sources.append((plat, s, names, "random"))
    for plat, secs, names, origin in sources:
        text = render(secs, rng, rng.choice([" ", "  ", "   "]))
        other_case = [n for n in (names[0].lower(), names[0].upper(), names[-1].swapcase()) if n not in names]
        flt = rng.choice([["*"], ["*"], rng.sample(names, rng.randint(1, len(names))), [names[0], "NOPE"], ["NOPE"]] + ([other_case[:1]] if other_case else []))
        job = dict(tid=t, act="Acls", plat=plat, sections=secs, text=text, filter=flt, origin=origin)
        if rng.random() < 0.25:       # the same configuration without its group sections was looked at before
            job["before_text"] = render([x for x in secs if not x["hs"].startswith("object-group")], rng, " ")
        jobs.append(job); t += 1
        if rng.random() < 0.3:
            jobs.append(dict(tid=t, act="AddrGroups", plat=plat, sections=secs, text=text, origin=origin)); t += 1
    ev_lists = core.pmap(exec_job, jobs)
    events = [e for evs in ev_lists for e in evs]
    verdicts, vstats = core.validate("Trace_C07", events)
    by_tid = {j["tid"]: (j, evs) for j, evs in zip(jobs, ev_lists)}
    out = []
    for v in verdicts:
        j, evs = by_tid[v["tid"]]
        out.append(dict(clause=v["clause"], features=dict(act=j["act"], plat=j["plat"], origin=j["origin"]),
                        case=dict(j, sections=None), events=[dict(exc=evs[0]["exc"], got=[{k: g[k] for k in g if k != "leaves"} for g in evs[0]["got"]])]))
    distinct = {j["text"] + json.dumps(j.get("filter")) + j["act"] for j in jobs}
    cov = dict(
        states=sum(m.get("states", 0) for m in mcs) + gen["states"], transitions=sum(m.get("states", 0) for m in mcs),
        distinct_states=sum(m.get("distinct", 0) for m in mcs),
        traces_validated_against_impl=len(jobs), evaluations=len(events), distinct_nontrivial=len(distinct),
        rule="one trace = one call of acls(config, platform, [names]) or addrgroups(config) on a whole configuration text; "
             "configurations: every section sequence TLC prints from MC_Config (two ACLs, one group, interfaces binding "
             "different ACLs in and out / the same ACL twice / nothing, noise) rendered on both platforms, plus seeded "
             "random configurations of 3..14 shuffled sections (1..3 ACLs with remarks and group references on either "
             "side, groups defined once / twice / not at all, interfaces with 0..3 bindings incl. unknown ACLs, noise "
             "sections with and without bodies, nested group-object members (defined, undefined, self-referencing), ACL "
             "names with punctuation and names differing in case only), indentation 1..3, '!' lines with and without "
             "text (also inside sections), name filters incl. unknown names and names in another case, sometimes after an "
             "earlier call on the configuration without its groups; "
             "every case is non-trivial; distinct = distinct (text, filter, function)",
        samples=[dict(text=jobs[i]["text"], filter=jobs[i].get("filter"), got=[{k: g[k] for k in g if k != "leaves"} for g in ev_lists[i][0]["got"]])
                 for i in (0, len(jobs) // 2, len(jobs) - 1)],
        model_checking=mcs, generation=gen, trace_validation=vstats, exhaustive=False,
        checker_cmd="tlc MC_Config (P_Invariant, P_Once, P_Filter, P_Flat, P_Plain); tlc Trace_C07",
    )
    return dict(verdicts=out, coverage=cov, level="model_checking", assumptions=[
        "domain: ACL sections with at least one body line and pairwise distinct section headers (the indentation dictionary "
        "of the library keys sections by their header line)",
        "interface lists are compared as sets without duplicates (sortedness of strings is not expressible in TLC)"])


def replay(path):
    with open(path) as f:
        r = json.load(f)
    print("REPLAY: re-run the check with the same seed; case text:\n" + r["case"]["text"])
    return 1
