"""C03 - shadow detection is sound (see harness/shadow.py)."""
from harness import shadow

PROP = "C03"
TRACE_MODULES = ["Trace_Shadow"]


def run(tier, seed):
    return shadow.run_shadow("C03", tier, seed, groups=True)


def replay(path):
    return shadow.replay_shadow(path)
