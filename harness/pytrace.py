"""pytest plugin: records what the repository's OWN test-suite does with the library, in the event formats of the
trace modules, so that TLC can judge executions nobody in /verif chose (code -> spec direction of the binding).

Loaded from outside the repository:  cd <repo> ; PYTHONPATH=/verif python -m pytest -p harness.pytrace tests
(no file of the repository is touched; with the plugin not loaded nothing is wrapped).  Output: $PYTRACE_OUT
(ndjson, one event per line, key "mod" = trace module that judges it).

What is recorded (after the call returns - the linearization point of a sequential library):
  Ace(line, platform=, version=, port_nr=, protocol_nr=)        -> Trace_C01  "Parse"  (fields, text, re-parse)
  bottom.shadow_of(top, skip=)  on the live objects of the test -> Trace_Shadow "ShadowOf" (all five skip variants
                                                                   are asked on the same live objects)
  Port("<op> <numbers>") and every later items= / line= / self-assignment of ports / sport on that object
                                                                -> Trace_C08 history of that object
  Wildcard("A M", max_ncwb=) and every later line= / max_ncwb= / ipnets() / ipnet on that object
                                                                -> Trace_C05 history of that object
Calls whose arguments are outside the model's vocabulary (asa, names as operands, keyword arguments the model does not
know) are counted and skipped; an object that receives such a call afterwards stops being traced (its history so far
stays).  Nothing here interprets ACL semantics: values are lexed / projected exactly as the other drivers do.
"""
from __future__ import annotations

import json
import os

from harness import lex, proj, core

OUT = os.environ.get("PYTRACE_OUT", "")
EVENTS = []          # (mod, key, event)   key groups the events of one object into one trace
STATS = dict(skipped=0)
_busy = [0]          # > 0 while the recorder itself (or an outer wrapped call) is running
VERSIONS = {"": 0, "0": 0, "15.2(02)SY": 15, "16.09.06": 16, "9.3(8)": 9}
ZW = dict(base=lex.Z32, mask=lex.Z32)
SKIPS = [None, ["addrgroup"], ["nc_wildcard"], ["addrgroup", "nc_wildcard"], ["nc_wildcard", "addrgroup"]]
_seq = [0]
_dead = set()        # ids of (kept alive) traced objects no longer traced
_known = {}          # id(obj) -> key of its trace (objects stay referenced so ids are not reused)
_keep = []


def _kill(obj):
    if id(obj) in _known:      # only objects we keep alive: their ids are never reused
        _dead.add(id(obj))


def _skip():
    STATS["skipped"] += 1


def _emit(mod, key, e):
    _seq[0] += 1
    EVENTS.append((mod, key, _seq[0], e))


class _quiet:
    def __enter__(self):
        _busy[0] += 1

    def __exit__(self, *a):
        _busy[0] -= 1


def _plat_ver(kw):
    plat = kw.get("platform", "ios") or "ios"
    ver = kw.get("version", "")
    ver = "" if ver is None else str(ver)
    if plat not in ("ios", "nxos") or ver not in VERSIONS:
        return None
    return plat, ver, VERSIONS[ver]


# ------------------------------------------------------------------ Ace(...)  -> Trace_C01

def _rec_ace(cls, args, kw, obj, exc):
    if len(args) != 1 or not isinstance(args[0], str) or not set(kw) <= {"platform", "version", "port_nr", "protocol_nr", "note"}:
        return _skip()
    pv = _plat_ver(kw)
    if pv is None or "\n" in args[0] or not args[0].strip():
        return _skip()
    plat, ver, vm = pv
    line = args[0]
    k = dict(platform=plat, version=ver, port_nr=bool(kw.get("port_nr", False)), protocol_nr=bool(kw.get("protocol_nr", False)))
    e = dict(tid=0, i=0, act="Parse", plat=plat, vmajor=vm, port_nr=k["port_nr"], protocol_nr=k["protocol_nr"], toks=lex.lex(line),
             exc="", dirty=False, src="tests")
    if exc is not None:
        e["exc"] = core.exc_name(exc)
        return _emit("Trace_C01", None, e)
    try:
        e["obs"], e["data"] = proj.ace(obj), proj.digest(obj)
        prev = obj.line
        for key in ("re", "re2"):
            r = dict(exc="", line=[], data="", obs=e["obs"])
            try:
                b = cls(prev, **(dict(k, note=kw["note"]) if "note" in kw else k))
                r["line"], r["data"], r["obs"] = lex.lex(b.line), proj.digest(b), proj.ace(b)
                prev = b.line
            except Exception as ex:  # noqa
                r["exc"] = core.exc_name(ex)
            e[key] = r
    except Exception:  # noqa   projection failed: not an event
        return _skip()
    _emit("Trace_C01", None, e)


# ------------------------------------------------------------------ Ace.shadow_of -> Trace_Shadow

def _rec_shadow(bottom, top, ret, exc):
    try:
        if bottom.platform != top.platform or bottom.platform not in ("ios", "nxos"):
            return _skip()

        def side(x):
            return dict(toks=lex.lex(x.line), smem=[lex.lex(m.line) for m in x.srcaddr.items], dmem=[lex.lex(m.line) for m in x.dstaddr.items])
        e = dict(tid=0, i=0, act="ShadowOf", plat=bottom.platform, vmajor=0, b=side(bottom), t=side(top), exc="", rets=[False] * 5, src="tests")
        try:
            e["rets"] = [bool(bottom.shadow_of(top, skip=s)) for s in SKIPS]
        except Exception as ex:  # noqa
            e["exc"] = core.exc_name(ex)
    except Exception:  # noqa
        return _skip()
    _emit("Trace_Shadow", None, e)


# ------------------------------------------------------------------ Port histories -> Trace_C08

NOOBS = dict(op="", items=[], ports=[], sport=[], line="")


def _port_obs(p):
    return dict(op=p.operator, items=list(p.items), ports=lex.runs(p.ports), sport=lex.sport_runs(p.sport), line=p.line)


def _port_expr(text):
    """'<op> n n ...' with numbers 1..65535 listed once -> (op, [n]) else None (names / port 0 / repeats: not in this model)"""
    ws = text.split()
    if not ws or ws[0] not in ("eq", "neq", "lt", "gt", "range") or not all(w.isdigit() for w in ws[1:]):
        return None
    xs = [int(w) for w in ws[1:]]
    if not xs or any(x < 1 or x > 65535 for x in xs) or (ws[0] in ("eq", "neq") and len(set(xs)) < len(xs)):
        return None
    return ws[0], xs


def _port_event(p, act, op="", xs=(), exc=None):
    key = _known.get(id(p))
    if key is None or id(p) in _dead:
        return
    e = dict(tid=0, i=0, act=act, op=op, xs=list(xs), exc=core.exc_name(exc) if exc is not None else "", obs=NOOBS, out=[], src="tests")
    try:
        e["obs"] = _port_obs(p)
    except Exception:  # noqa
        _kill(p)
        return
    _emit("Trace_C08", key, e)


def _rec_port_new(p, args, kw, exc):
    if len(args) != 1 or not isinstance(args[0], str) or not set(kw) <= {"platform", "version", "protocol", "port_nr", "note"}:
        return _skip()
    pe = _port_expr(args[0])
    if pe is None or kw.get("platform", "ios") not in ("ios", "nxos") or kw.get("protocol", "") not in ("tcp", "udp"):
        return _skip()
    if kw.get("platform", "ios") == "nxos" and pe[0] in ("eq", "neq") and len(pe[1]) > 1:
        return _skip()       # one operand only on NX-OS: platform grammar, judged by C01
    if exc is not None:
        e = dict(tid=0, i=0, act="New", op=pe[0], xs=pe[1], exc=core.exc_name(exc), obs=NOOBS, out=[], src="tests")
        return _emit("Trace_C08", ("port", _seq[0] + 1), e)
    _keep.append(p)
    _known[id(p)] = ("port", len(_keep))
    _port_event(p, "New", pe[0], pe[1])


# ------------------------------------------------------------------ Wildcard histories -> Trace_C05

def _wild_line(w):
    return lex.wild_of_text(w.line)


def _wild_event(w, act, wv=None, limit=0, exc=None, ret=()):
    key = _known.get(id(w))
    if key is None or id(w) in _dead:
        return
    e = dict(tid=0, i=0, act=act, w=wv or ZW, limit=limit, exc=core.exc_name(exc) if exc is not None else "", line=ZW, ret=list(ret), src="tests")
    try:
        e["line"] = _wild_line(w)
    except Exception:  # noqa
        _kill(w)
        return
    _emit("Trace_C05", key, e)


def _wild_text_ok(s):
    ws = s.split() if isinstance(s, str) else []
    if len(ws) != 2:
        return None
    try:
        return lex.wild_of_text(s)
    except Exception:  # noqa
        return None


def _limit_of(kw):
    lim = kw.get("max_ncwb", 16)
    return lim if isinstance(lim, int) and not isinstance(lim, bool) and 0 <= lim <= 30 else None


def _rec_wild_new(w, args, kw, exc):
    if len(args) != 1 or not set(kw) <= {"platform", "max_ncwb", "note", "version"} or kw.get("platform", "ios") not in ("ios", "nxos"):
        return _skip()
    wv, lim = _wild_text_ok(args[0]), _limit_of(kw)
    if wv is None or lim is None:
        return _skip()
    if exc is not None:
        e = dict(tid=0, i=0, act="New", w=wv, limit=lim, exc=core.exc_name(exc), line=ZW, ret=[], src="tests")
        return _emit("Trace_C05", ("wild", _seq[0] + 1), e)
    _keep.append(w)
    _known[id(w)] = ("wild", len(_keep))
    _wild_event(w, "New", wv, lim)


# ------------------------------------------------------------------ wrapping

def _wrap_init(cls, rec):
    orig = cls.__init__

    def init(self, *args, **kw):
        if _busy[0]:
            return orig(self, *args, **kw)
        _busy[0] += 1
        try:
            orig(self, *args, **kw)
        except Exception as ex:
            try:
                rec(self, args, kw, ex)
            except Exception:  # noqa
                pass
            raise
        finally:
            _busy[0] -= 1
        with _quiet():
            rec(self, args, kw, None)
    init.__wrapped__ = orig
    cls.__init__ = init


def _wrap_setter(cls, name, rec):
    prop = getattr(cls, name, None)
    if not isinstance(prop, property) or prop.fset is None:
        return

    def fset(self, value):
        if _busy[0]:
            return prop.fset(self, value)
        _busy[0] += 1
        exc = None
        try:
            before = None
            try:
                before = prop.fget(self)
            except Exception:  # noqa
                pass
            try:
                prop.fset(self, value)
            except Exception as ex:
                exc = ex
                raise
            finally:
                try:
                    rec(self, value, before, exc)
                except Exception:  # noqa
                    _kill(self)
        finally:
            _busy[0] -= 1
    setattr(cls, name, property(prop.fget, fset, prop.fdel, prop.__doc__))


def _wrap_method(cls, name, rec):
    orig = getattr(cls, name)

    def meth(self, *args, **kw):
        if _busy[0]:
            return orig(self, *args, **kw)
        _busy[0] += 1
        ret, exc = None, None
        try:
            ret = orig(self, *args, **kw)
            return ret
        except Exception as ex:
            exc = ex
            raise
        finally:
            try:
                rec(self, args, kw, ret, exc)
            except Exception:  # noqa
                pass
            _busy[0] -= 1
    setattr(cls, name, meth)


def install():
    from cisco_acl import Ace, Port, Wildcard
    _wrap_init(Ace, lambda self, a, k, ex: _rec_ace(Ace, a, k, self, ex))
    _wrap_method(Ace, "shadow_of", lambda self, a, k, ret, ex: _rec_shadow(self, (a[0] if a else k.get("other")), ret, ex)
                 if (a or "other" in k) else None)
    _wrap_init(Port, lambda self, a, k, ex: _rec_port_new(self, a, k, ex))

    def port_items(p, value, before, exc):
        xs = list(value) if isinstance(value, (list, tuple)) else None
        if xs is None or not all(isinstance(x, int) and not isinstance(x, bool) and 1 <= x <= 65535 for x in xs) or len(set(xs)) < len(xs):
            _kill(p)
            return
        _port_event(p, "WriteBackItems" if xs == before and exc is None else "SetItems", "", xs, exc)

    def port_line(p, value, before, exc):
        pe = _port_expr(value) if isinstance(value, str) else None
        if pe is None or exc is not None or (p.platform == "nxos" and pe[0] in ("eq", "neq") and len(pe[1]) > 1):
            _kill(p)
            return
        _port_event(p, "SetLine", pe[0], pe[1], exc)

    def port_view(act):
        def rec(p, value, before, exc):
            if value != before:      # only the self-assignment is bound (see DESIGN: SetPorts of arbitrary sets is modelled, not bound)
                _kill(p)
                return
            _port_event(p, act, "", [], exc)
        return rec
    _wrap_setter(Port, "items", port_items)
    _wrap_setter(Port, "line", port_line)
    _wrap_setter(Port, "ports", port_view("WriteBackPorts"))
    _wrap_setter(Port, "sport", port_view("WriteBackSport"))
    for nm in ("platform", "protocol", "port_nr", "version", "operator"):
        _wrap_setter(Port, nm, lambda p, value, before, exc: _kill(p))

    _wrap_init(Wildcard, lambda self, a, k, ex: _rec_wild_new(self, a, k, ex))

    def wild_line(w, value, before, exc):
        wv = _wild_text_ok(value)
        if wv is None:
            _kill(w)
            return
        _wild_event(w, "SetLine", wv, 0, exc)

    def wild_limit(w, value, before, exc):
        if not (isinstance(value, int) and not isinstance(value, bool) and 0 <= value <= 31):
            _kill(w)
            return
        _wild_event(w, "SetLimit", None, value, exc)

    def wild_ipnets(w, a, k, ret, exc):
        if a or k:
            return
        m = lex.wild_of_text(w.line)["mask"]
        while m and m[-1] == 1:
            m = m[:-1]
        if sum(m) > 10:
            return
        _wild_event(w, "QueryIpnets", None, 0, exc, [lex.pfx_of_net(n) for n in (ret or [])])
    _wrap_setter(Wildcard, "line", wild_line)
    _wrap_setter(Wildcard, "max_ncwb", wild_limit)
    _wrap_method(Wildcard, "ipnets", wild_ipnets)
    for nm in ("platform", "prefix", "wildmask"):
        _wrap_setter(Wildcard, nm, lambda w, value, before, exc: _kill(w))


# ------------------------------------------------------------------ Acl operations -> Trace_Acl (pairs: Given, op)

def _acl_vm(acl):
    try:
        if acl.platform not in ("ios", "nxos"):
            return None
        vm = {0: 0, 15: 15, 16: 16, 9: 9}.get(int(acl.version.major))
        from harness import aclhist
        if vm is None or acl.group_by not in [""] + aclhist.PREFIXES:
            return None
        return vm
    except Exception:  # noqa
        return None


def _wrap_acl_op(Acl, name, act, is_setter=False):
    from harness import aclhist
    if is_setter:
        prop = getattr(Acl, name)
        orig = prop.fset
    else:
        orig = getattr(Acl, name)

    def call(self, *args, **kw):
        if _busy[0]:
            return orig(self, *args, **kw)
        _busy[0] += 1
        try:
            e, before, extra = None, None, {}
            try:
                vm = _acl_vm(self)
                fields = _acl_args(act, args, kw) if vm is not None else None
                if fields is not None:
                    ver = str(self.version)
                    before = aclhist.obs_acl(self, vm, ver)
                    ace_lines = [x.line for x in aclhist.leaves_of(self) if type(x).__name__ == "Ace"]
                    e = dict(aclhist.BASE, i=1, act=act, recorded=True, src="tests", **fields)
                    e["lines_distinct"] = len(set(ace_lines)) == len(ace_lines)
                    if act in ("ShadowOf", "DeleteShadow"):
                        extra["shading_before"] = self.shading(fields["skip"] or None)
                else:
                    _skip()
            except Exception:  # noqa
                e = None
            ret, exc = None, None
            try:
                ret = orig(self, *args, **kw)
                return ret
            except Exception as ex:
                exc = ex
                raise
            finally:
                if e is not None:
                    try:
                        _acl_finish(self, e, before, act, ret, exc, vm, ver, ace_lines, extra)
                    except Exception:  # noqa
                        _skip()
        finally:
            _busy[0] -= 1
    if is_setter:
        setattr(Acl, name, property(prop.fget, call, prop.fdel, prop.__doc__))
    else:
        setattr(Acl, name, call)


def _is_int(x):
    return isinstance(x, int) and not isinstance(x, bool)


def _acl_args(act, args, kw):
    """event fields of a call inside the model's vocabulary, else None"""
    from harness import aclhist
    if act == "Resequence":
        if len(args) > 2 or not set(kw) <= {"start", "step"}:
            return None
        s = args[0] if args else kw.get("start", 10)
        d = args[1] if len(args) > 1 else kw.get("step", 10)
        if not (_is_int(s) and _is_int(d) and 0 <= s < 2 ** 32 and 0 <= d < 2 ** 32):
            return None
        return dict(s=lex.limbs(s), d=lex.limbs(d))
    if act == "Group":
        g = args[0] if args else kw.get("group_by")
        return dict(prefix=g) if g in aclhist.PREFIXES and len(args) + len(kw) == 1 else None
    if act in ("Shading", "ShadowOf", "DeleteShadow"):
        sk = args[0] if args else kw.get("skip")
        if len(args) + len(kw) > 1 or not (sk is None or (isinstance(sk, list) and set(sk) <= {"addrgroup", "nc_wildcard"})):
            return None
        return dict(skip=list(sk or []))
    if act == "SetPlatform":
        return dict(plat=args[0]) if len(args) == 1 and args[0] in ("ios", "nxos") else None
    if act in ("SetPortNr", "SetProtocolNr"):
        return dict(flag=args[0]) if len(args) == 1 and isinstance(args[0], bool) else None
    if act == "SetType":
        return dict(typ=args[0]) if len(args) == 1 and args[0] in ("standard", "extended") else None
    return dict() if not args and not kw else None       # Ungroup, Sort, UngroupPorts, TcamCount, DeleteNote, Copy


def _acl_finish(acl, e, before, act, ret, exc, vm, ver, ace_lines, extra):
    from harness import aclhist
    e["exc"] = core.exc_name(exc) if exc is not None else ""
    if exc is None:
        if act == "Resequence":
            e["ret_num"] = lex.limbs(int(ret))
        elif act == "TcamCount":
            e["ret_int"] = int(ret)
        elif act == "Shading":
            e["pairs"] = aclhist.report_pairs(ret, ace_lines)
        elif act == "ShadowOf":
            rep0 = extra["shading_before"]
            e["pairs"] = aclhist.report_pairs(rep0, ace_lines)
            e["same_as_shading_before"] = ret == [s for ls in rep0.values() for s in ls]
        elif act == "DeleteShadow":
            e["pairs"] = aclhist.report_pairs(ret, ace_lines)
            e["same_as_shading_before"] = ret == extra["shading_before"]
    e["obs"] = aclhist.obs_acl(acl, vm, ver)
    e["twin"] = e["obs"]
    if act == "Copy" and exc is None:
        e["twin"] = aclhist.obs_acl(ret, vm, ver)
        e["twin_text_equal"] = ret.line == acl.line
        e["twin_data_equal"] = proj.digest(ret) == proj.digest(acl)
        e["shared_mutables"] = len(aclhist.mutable_ids(acl) & aclhist.mutable_ids(ret))
    e["before"] = before
    given = dict(aclhist.BASE, i=0, act="Given", recorded=True, src="tests", obs=before, twin=before, before=before)
    key = ("acl", _seq[0] + 1)
    _emit("Trace_Acl", key, given)
    _emit("Trace_Acl", key, e)


def install_acl():
    from cisco_acl import Acl
    for name, act in (("resequence", "Resequence"), ("group", "Group"), ("ungroup", "Ungroup"), ("sort", "Sort"), ("ungroup_ports", "UngroupPorts"),
                      ("tcam_count", "TcamCount"), ("delete_note", "DeleteNote"), ("shading", "Shading"), ("shadow_of", "ShadowOf"),
                      ("delete_shadow", "DeleteShadow"), ("copy", "Copy")):
        _wrap_acl_op(Acl, name, act)
    for name, act in (("platform", "SetPlatform"), ("port_nr", "SetPortNr"), ("protocol_nr", "SetProtocolNr"), ("type", "SetType")):
        _wrap_acl_op(Acl, name, act, is_setter=True)


def dump():
    if not OUT:
        return
    # group per-object histories into contiguous traces; single events are traces of their own
    by_key, order = {}, []
    for mod, key, seq, e in EVENTS:
        k = (mod, key if key is not None else ("single", seq))
        if k not in by_key:
            by_key[k] = []
            order.append(k)
        by_key[k].append(e)
    with open(OUT, "w") as f:
        tid = 0
        for k in order:
            tid += 1
            for i, e in enumerate(by_key[k]):
                e["tid"], e["i"] = tid, i
                f.write(json.dumps(dict(mod=k[0], e=e)) + "\n")
        f.write(json.dumps(dict(mod="stats", e=dict(STATS, events=len(EVENTS)))) + "\n")


# ------------------------------------------------------------------ pytest hooks

def pytest_configure(config):
    if OUT:
        install()
        install_acl()


def pytest_unconfigure(config):
    dump()
