"""pytest plugin: records what the repository's OWN test-suite does with the library, in the event formats of the
trace modules, so that TLC can judge executions nobody in /verif chose (code -> spec direction of the binding).

Loaded from outside the repository:  cd <repo> ; PYTHONPATH=/verif python -m pytest -p harness.pytrace tests
(no file of the repository is touched; with the plugin not loaded nothing is wrapped).  Output: $PYTRACE_OUT
(ndjson, one event per line, key "mod" = trace module that judges it).

What is recorded (after the call returns - the linearization point of a sequential library):
  Ace(line, platform=, version=, port_nr=, protocol_nr=)        -> Trace_C01  "Parse"  (fields, text, re-parse)
  bottom.shadow_of(top, skip=)  on the live objects of the test -> Trace_Shadow "ShadowOf" (all five skip variants
                                                                   are asked on the same live objects)
  Port("<op> <numbers>") and every later items= / line= / self-assignment of ports / sport on that object
                                                                -> Trace_C08 history of that object
  Wildcard("A M", max_ncwb=) and every later line= / max_ncwb= / ipnets() / ipnet on that object
                                                                -> Trace_C05 history of that object
Calls whose arguments are outside the model's vocabulary (asa, names as operands, keyword arguments the model does not
know) are counted and skipped; an object that receives such a call afterwards stops being traced (its history so far
stays).  Nothing here interprets ACL semantics: values are lexed / projected exactly as the other drivers do.
"""
from __future__ import annotations

import json
import os

from harness import lex, proj, core

OUT = os.environ.get("PYTRACE_OUT", "")
EVENTS = []          # (mod, key, event)   key groups the events of one object into one trace
STATS = dict(skipped=0)
_busy = [0]          # > 0 while the recorder itself (or an outer wrapped call) is running
VERSIONS = {"": 0, "0": 0, "15.2(02)SY": 15, "16.09.06": 16, "9.3(8)": 9}
ZW = dict(base=lex.Z32, mask=lex.Z32)
SKIPS = [None, ["addrgroup"], ["nc_wildcard"], ["addrgroup", "nc_wildcard"], ["nc_wildcard", "addrgroup"]]
_seq = [0]
_dead = set()        # ids of (kept alive) traced objects no longer traced
_known = {}          # id(obj) -> key of its trace (objects stay referenced so ids are not reused)
_keep = []


def _kill(obj):
    if id(obj) in _known:      # only objects we keep alive: their ids are never reused
        _dead.add(id(obj))


def _skip():
    STATS["skipped"] += 1


def _emit(mod, key, e):
    _seq[0] += 1
    EVENTS.append((mod, key, _seq[0], e))


class _quiet:
    def __enter__(self):
        _busy[0] += 1

    def __exit__(self, *a):
        _busy[0] -= 1


def _plat_ver(kw):
    plat = kw.get("platform", "ios") or "ios"
    ver = kw.get("version", "")
    ver = "" if ver is None else str(ver)
    if plat not in ("ios", "nxos") or ver not in VERSIONS:
        return None
    return plat, ver, VERSIONS[ver]


# ------------------------------------------------------------------ Ace(...)  -> Trace_C01

def _rec_ace(cls, args, kw, obj, exc):
    if len(args) != 1 or not isinstance(args[0], str) or not set(kw) <= {"platform", "version", "port_nr", "protocol_nr", "note"}:
        return _skip()
    pv = _plat_ver(kw)
    if pv is None or "\n" in args[0] or not args[0].strip():
        return _skip()
    plat, ver, vm = pv
    line = args[0]
    k = dict(platform=plat, version=ver, port_nr=bool(kw.get("port_nr", False)), protocol_nr=bool(kw.get("protocol_nr", False)))
    e = dict(tid=0, i=0, act="Parse", plat=plat, vmajor=vm, port_nr=k["port_nr"], protocol_nr=k["protocol_nr"], toks=lex.lex(line),
             exc="", dirty=False, src="tests")
    if exc is not None:
        e["exc"] = core.exc_name(exc)
        return _emit("Trace_C01", None, e)
    try:
        e["obs"], e["data"] = proj.ace(obj), proj.digest(obj)
        prev = obj.line
        for key in ("re", "re2"):
            r = dict(exc="", line=[], data="", obs=e["obs"])
            try:
                b = cls(prev, **(dict(k, note=kw["note"]) if "note" in kw else k))
                r["line"], r["data"], r["obs"] = lex.lex(b.line), proj.digest(b), proj.ace(b)
                prev = b.line
            except Exception as ex:  # noqa
                r["exc"] = core.exc_name(ex)
            e[key] = r
    except Exception:  # noqa   projection failed: not an event
        return _skip()
    _emit("Trace_C01", None, e)


# ------------------------------------------------------------------ Ace.shadow_of -> Trace_Shadow

def _rec_shadow(bottom, top, ret, exc):
    try:
        if bottom.platform != top.platform or bottom.platform not in ("ios", "nxos"):
            return _skip()

        def side(x):
            return dict(toks=lex.lex(x.line), smem=[lex.lex(m.line) for m in x.srcaddr.items], dmem=[lex.lex(m.line) for m in x.dstaddr.items])
        e = dict(tid=0, i=0, act="ShadowOf", plat=bottom.platform, vmajor=0, b=side(bottom), t=side(top), exc="", rets=[False] * 5, src="tests")
        try:
            e["rets"] = [bool(bottom.shadow_of(top, skip=s)) for s in SKIPS]
        except Exception as ex:  # noqa
            e["exc"] = core.exc_name(ex)
    except Exception:  # noqa
        return _skip()
    _emit("Trace_Shadow", None, e)


# ------------------------------------------------------------------ Port histories -> Trace_C08

NOOBS = dict(op="", items=[], ports=[], sport=[], line="")


def _port_obs(p):
    return dict(op=p.operator, items=list(p.items), ports=lex.runs(p.ports), sport=lex.sport_runs(p.sport), line=p.line)


def _port_expr(text):
    """'<op> n n ...' with numbers 1..65535 listed once -> (op, [n]) else None (names / port 0 / repeats: not in this model)"""
    ws = text.split()
    if not ws or ws[0] not in ("eq", "neq", "lt", "gt", "range") or not all(w.isdigit() for w in ws[1:]):
        return None
    xs = [int(w) for w in ws[1:]]
    if not xs or any(x < 1 or x > 65535 for x in xs) or (ws[0] in ("eq", "neq") and len(set(xs)) < len(xs)):
        return None
    return ws[0], xs


def _port_event(p, act, op="", xs=(), exc=None):
    key = _known.get(id(p))
    if key is None or id(p) in _dead:
        return
    e = dict(tid=0, i=0, act=act, op=op, xs=list(xs), exc=core.exc_name(exc) if exc is not None else "", obs=NOOBS, out=[], src="tests")
    try:
        e["obs"] = _port_obs(p)
    except Exception:  # noqa
        _kill(p)
        return
    _emit("Trace_C08", key, e)


def _rec_port_new(p, args, kw, exc):
    if len(args) != 1 or not isinstance(args[0], str) or not set(kw) <= {"platform", "version", "protocol", "port_nr", "note"}:
        return _skip()
    pe = _port_expr(args[0])
    if pe is None or kw.get("platform", "ios") not in ("ios", "nxos") or kw.get("protocol", "") not in ("tcp", "udp"):
        return _skip()
    if kw.get("platform", "ios") == "nxos" and pe[0] in ("eq", "neq") and len(pe[1]) > 1:
        return _skip()       # one operand only on NX-OS: platform grammar, judged by C01
    if exc is not None:
        e = dict(tid=0, i=0, act="New", op=pe[0], xs=pe[1], exc=core.exc_name(exc), obs=NOOBS, out=[], src="tests")
        return _emit("Trace_C08", ("port", _seq[0] + 1), e)
    _keep.append(p)
    _known[id(p)] = ("port", len(_keep))
    _port_event(p, "New", pe[0], pe[1])


# ------------------------------------------------------------------ Wildcard histories -> Trace_C05

def _wild_line(w):
    return lex.wild_of_text(w.line)


def _wild_event(w, act, wv=None, limit=0, exc=None, ret=()):
    key = _known.get(id(w))
    if key is None or id(w) in _dead:
        return
    e = dict(tid=0, i=0, act=act, w=wv or ZW, limit=limit, exc=core.exc_name(exc) if exc is not None else "", line=ZW, ret=list(ret), src="tests")
    try:
        e["line"] = _wild_line(w)
    except Exception:  # noqa
        _kill(w)
        return
    _emit("Trace_C05", key, e)


def _wild_text_ok(s):
    ws = s.split() if isinstance(s, str) else []
    if len(ws) != 2:
        return None
    try:
        return lex.wild_of_text(s)
    except Exception:  # noqa
        return None


def _limit_of(kw):
    lim = kw.get("max_ncwb", 16)
    return lim if isinstance(lim, int) and not isinstance(lim, bool) and 0 <= lim <= 30 else None


def _rec_wild_new(w, args, kw, exc):
    if len(args) != 1 or not set(kw) <= {"platform", "max_ncwb", "note", "version"} or kw.get("platform", "ios") not in ("ios", "nxos"):
        return _skip()
    wv, lim = _wild_text_ok(args[0]), _limit_of(kw)
    if wv is None or lim is None:
        return _skip()
    if exc is not None:
        e = dict(tid=0, i=0, act="New", w=wv, limit=lim, exc=core.exc_name(exc), line=ZW, ret=[], src="tests")
        return _emit("Trace_C05", ("wild", _seq[0] + 1), e)
    _keep.append(w)
    _known[id(w)] = ("wild", len(_keep))
    _wild_event(w, "New", wv, lim)


# ------------------------------------------------------------------ wrapping

def _wrap_init(cls, rec):
    orig = cls.__init__

    def init(self, *args, **kw):
        if _busy[0]:
            return orig(self, *args, **kw)
        _busy[0] += 1
        try:
            orig(self, *args, **kw)
        except Exception as ex:
            try:
                rec(self, args, kw, ex)
            except Exception:  # noqa
                pass
            raise
        finally:
            _busy[0] -= 1
        with _quiet():
            rec(self, args, kw, None)
    init.__wrapped__ = orig
    cls.__init__ = init


def _wrap_setter(cls, name, rec):
    prop = getattr(cls, name, None)
    if not isinstance(prop, property) or prop.fset is None:
        return

    def fset(self, value):
        if _busy[0]:
            return prop.fset(self, value)
        _busy[0] += 1
        exc = None
        try:
            before = None
            try:
                before = prop.fget(self)
            except Exception:  # noqa
                pass
            try:
                prop.fset(self, value)
            except Exception as ex:
                exc = ex
                raise
            finally:
                try:
                    rec(self, value, before, exc)
                except Exception:  # noqa
                    _kill(self)
        finally:
            _busy[0] -= 1
    setattr(cls, name, property(prop.fget, fset, prop.fdel, prop.__doc__))


def _wrap_method(cls, name, rec):
    orig = getattr(cls, name)

    def meth(self, *args, **kw):
        if _busy[0]:
            return orig(self, *args, **kw)
        _busy[0] += 1
        ret, exc = None, None
        try:
            ret = orig(self, *args, **kw)
            return ret
        except Exception as ex:
            exc = ex
            raise
        finally:
            try:
                rec(self, args, kw, ret, exc)
            except Exception:  # noqa
                pass
            _busy[0] -= 1
    setattr(cls, name, meth)


def install():
    from cisco_acl import Ace, Port, Wildcard
    _wrap_init(Ace, lambda self, a, k, ex: _rec_ace(Ace, a, k, self, ex))
    _wrap_method(Ace, "shadow_of", lambda self, a, k, ret, ex: _rec_shadow(self, (a[0] if a else k.get("other")), ret, ex)
                 if (a or "other" in k) else None)
    _wrap_init(Port, lambda self, a, k, ex: _rec_port_new(self, a, k, ex))

    def port_items(p, value, before, exc):
        xs = list(value) if isinstance(value, (list, tuple)) else None
        if xs is None or not all(isinstance(x, int) and not isinstance(x, bool) and 1 <= x <= 65535 for x in xs) or len(set(xs)) < len(xs):
            _kill(p)
            return
        _port_event(p, "WriteBackItems" if xs == before and exc is None else "SetItems", "", xs, exc)

    def port_line(p, value, before, exc):
        pe = _port_expr(value) if isinstance(value, str) else None
        if pe is None or exc is not None or (p.platform == "nxos" and pe[0] in ("eq", "neq") and len(pe[1]) > 1):
            _kill(p)
            return
        _port_event(p, "SetLine", pe[0], pe[1], exc)

    def port_view(act):
        def rec(p, value, before, exc):
            if value != before:      # only the self-assignment is bound (see DESIGN: SetPorts of arbitrary sets is modelled, not bound)
                _kill(p)
                return
            _port_event(p, act, "", [], exc)
        return rec
    _wrap_setter(Port, "items", port_items)
    _wrap_setter(Port, "line", port_line)
    _wrap_setter(Port, "ports", port_view("WriteBackPorts"))
    _wrap_setter(Port, "sport", port_view("WriteBackSport"))
    for nm in ("platform", "protocol", "port_nr", "version", "operator"):
        _wrap_setter(Port, nm, lambda p, value, before, exc: _kill(p))

    _wrap_init(Wildcard, lambda self, a, k, ex: _rec_wild_new(self, a, k, ex))

    def wild_line(w, value, before, exc):
        wv = _wild_text_ok(value)
        if wv is None:
            _kill(w)
            return
        _wild_event(w, "SetLine", wv, 0, exc)

    def wild_limit(w, value, before, exc):
        if not (isinstance(value, int) and not isinstance(value, bool) and 0 <= value <= 31):
            _kill(w)
            return
        _wild_event(w, "SetLimit", None, value, exc)

    def wild_ipnets(w, a, k, ret, exc):
        if a or k:
            return
        m = lex.wild_of_text(w.line)["mask"]
        while m and m[-1] == 1:
            m = m[:-1]
        if sum(m) > 10:
            return
        _wild_event(w, "QueryIpnets", None, 0, exc, [lex.pfx_of_net(n) for n in (ret or [])])
    _wrap_setter(Wildcard, "line", wild_line)
    _wrap_setter(Wildcard, "max_ncwb", wild_limit)
    _wrap_method(Wildcard, "ipnets", wild_ipnets)
    for nm in ("platform", "prefix", "wildmask"):
        _wrap_setter(Wildcard, nm, lambda w, value, before, exc: _kill(w))


# ------------------------------------------------------------------ Acl operations -> Trace_Acl (pairs: Given, op)

def _acl_vm(acl):
    try:
        if acl.platform not in ("ios", "nxos"):
            return None
        vm = {0: 0, 15: 15, 16: 16, 9: 9}.get(int(acl.version.major))
        from harness import aclhist
        if vm is None or acl.group_by not in [""] + aclhist.PREFIXES:
            return None
        return vm
    except Exception:  # noqa
        return None


def _wrap_acl_op(Acl, name, act, is_setter=False):
    from harness import aclhist
    if is_setter:
        prop = getattr(Acl, name)
        orig = prop.fset
    else:
        orig = getattr(Acl, name)

    def call(self, *args, **kw):
        if _busy[0]:
            return orig(self, *args, **kw)
        _busy[0] += 1
        try:
            e, before, extra = None, None, {}
            try:
                vm = _acl_vm(self)
                fields = _acl_args(act, args, kw) if vm is not None else None
                if fields is not None:
                    ver = str(self.version)
                    before = aclhist.obs_acl(self, vm, ver)
                    ace_lines = [x.line for x in aclhist.leaves_of(self) if type(x).__name__ == "Ace"]
                    e = dict(aclhist.BASE, i=1, act=act, recorded=True, src="tests", **fields)
                    e["lines_distinct"] = len(set(ace_lines)) == len(ace_lines)
                    if act in ("ShadowOf", "DeleteShadow"):
                        extra["shading_before"] = self.shading(fields["skip"] or None)
                else:
                    _skip()
            except Exception:  # noqa
                e = None
            ret, exc = None, None
            try:
                ret = orig(self, *args, **kw)
                return ret
            except Exception as ex:
                exc = ex
                raise
            finally:
                if e is not None:
                    try:
                        _acl_finish(self, e, before, act, ret, exc, vm, ver, ace_lines, extra)
                    except Exception:  # noqa
                        _skip()
        finally:
            _busy[0] -= 1
    if is_setter:
        setattr(Acl, name, property(prop.fget, call, prop.fdel, prop.__doc__))
    else:
        setattr(Acl, name, call)


def _is_int(x):
    return isinstance(x, int) and not isinstance(x, bool)


def _acl_args(act, args, kw):
    """event fields of a call inside the model's vocabulary, else None"""
    from harness import aclhist
    if act == "Resequence":
        if len(args) > 2 or not set(kw) <= {"start", "step"}:
            return None
        s = args[0] if args else kw.get("start", 10)
        d = args[1] if len(args) > 1 else kw.get("step", 10)
        if not (_is_int(s) and _is_int(d) and 0 <= s < 2 ** 32 and 0 <= d < 2 ** 32):
            return None
        return dict(s=lex.limbs(s), d=lex.limbs(d))
    if act == "Group":
        g = args[0] if args else kw.get("group_by")
        return dict(prefix=g) if g in aclhist.PREFIXES and len(args) + len(kw) == 1 else None
    if act in ("Shading", "ShadowOf", "DeleteShadow"):
        sk = args[0] if args else kw.get("skip")
        if len(args) + len(kw) > 1 or not (sk is None or (isinstance(sk, list) and set(sk) <= {"addrgroup", "nc_wildcard"})):
            return None
        return dict(skip=list(sk or []))
    if act == "SetPlatform":
        return dict(plat=args[0]) if len(args) == 1 and args[0] in ("ios", "nxos") else None
    if act in ("SetPortNr", "SetProtocolNr"):
        return dict(flag=args[0]) if len(args) == 1 and isinstance(args[0], bool) else None
    if act == "SetType":
        return dict(typ=args[0]) if len(args) == 1 and args[0] in ("standard", "extended") else None
    return dict() if not args and not kw else None       # Ungroup, Sort, UngroupPorts, TcamCount, DeleteNote, Copy


def _acl_finish(acl, e, before, act, ret, exc, vm, ver, ace_lines, extra):
    from harness import aclhist
    e["exc"] = core.exc_name(exc) if exc is not None else ""
    if exc is None:
        if act == "Resequence":
            e["ret_num"] = lex.limbs(int(ret))
        elif act == "TcamCount":
            e["ret_int"] = int(ret)
        elif act == "Shading":
            e["pairs"] = aclhist.report_pairs(ret, ace_lines)
        elif act == "ShadowOf":
            rep0 = extra["shading_before"]
            e["pairs"] = aclhist.report_pairs(rep0, ace_lines)
            e["same_as_shading_before"] = ret == [s for ls in rep0.values() for s in ls]
        elif act == "DeleteShadow":
            e["pairs"] = aclhist.report_pairs(ret, ace_lines)
            e["same_as_shading_before"] = ret == extra["shading_before"]
    e["obs"] = aclhist.obs_acl(acl, vm, ver)
    e["twin"] = e["obs"]
    if act == "Copy" and exc is None:
        e["twin"] = aclhist.obs_acl(ret, vm, ver)
        e["twin_text_equal"] = ret.line == acl.line
        e["twin_data_equal"] = proj.digest(ret) == proj.digest(acl)
        e["shared_mutables"] = len(aclhist.mutable_ids(acl) & aclhist.mutable_ids(ret))
    e["before"] = before
    given = dict(aclhist.BASE, i=0, act="Given", recorded=True, src="tests", obs=before, twin=before, before=before)
    key = ("acl", _seq[0] + 1)
    _emit("Trace_Acl", key, given)
    _emit("Trace_Acl", key, e)


def install_acl():
    from cisco_acl import Acl
    for name, act in (("resequence", "Resequence"), ("group", "Group"), ("ungroup", "Ungroup"), ("sort", "Sort"), ("ungroup_ports", "UngroupPorts"),
                      ("tcam_count", "TcamCount"), ("delete_note", "DeleteNote"), ("shading", "Shading"), ("shadow_of", "ShadowOf"),
                      ("delete_shadow", "DeleteShadow"), ("copy", "Copy")):
        _wrap_acl_op(Acl, name, act)
    for name, act in (("platform", "SetPlatform"), ("port_nr", "SetPortNr"), ("protocol_nr", "SetProtocolNr"), ("type", "SetType")):
        _wrap_acl_op(Acl, name, act, is_setter=True)


# ------------------------------------------------------------------ address containment -> Trace_C13

def _addr_side(a):
    toks = lex.lex(a.line)
    mem = [lex.lex(m.line) for m in a.items] if getattr(a, "items", None) else []
    return toks, mem


def install_addr():
    from cisco_acl import Address, AddressAg, AddrGroup

    def rec_subnet(self, args, kw, ret, exc):
        other = args[0] if args else kw.get("other")
        if other is None or type(other) is not type(self) or self.platform != other.platform or self.platform not in ("ios", "nxos"):
            return _skip()
        bt, bm = _addr_side(self)
        tt, tm = _addr_side(other)
        e = dict(tid=0, i=0, act="SubnetOf", cls=type(self).__name__, plat=self.platform, btoks=bt, bmem=bm, ttoks=tt, tmem=tm,
                 exc=core.exc_name(exc) if exc is not None else "", ret=bool(ret) if exc is None else False, src="tests")
        _emit("Trace_C13", None, e)
    for cls in (Address, AddressAg):
        _wrap_method(cls, "subnet_of", rec_subnet)

    def rec_in_member(self, args, kw, ret, exc):       # other in self  (both members)
        other = args[0] if args else None
        if type(other) is not AddressAg or self.platform != other.platform or self.platform not in ("ios", "nxos"):
            return _skip()
        e = dict(tid=0, i=0, act="In", cls="AddressAg", plat=self.platform, btoks=lex.lex(other.line), bmem=[], ttoks=lex.lex(self.line), tmem=[],
                 exc=core.exc_name(exc) if exc is not None else "", ret=bool(ret) if exc is None else False, src="tests")
        _emit("Trace_C13", None, e)
    _wrap_method(AddressAg, "__contains__", rec_in_member)

    def rec_in_group(self, args, kw, ret, exc):        # other in group
        other = args[0] if args else None
        if type(other) is not AddressAg or self.platform != other.platform or self.platform not in ("ios", "nxos"):
            return _skip()
        if not all(type(m) is AddressAg for m in self.items):
            return _skip()
        e = dict(tid=0, i=0, act="InGroup", cls="AddressAg", plat=self.platform, btoks=lex.lex(other.line), bmem=[], ttoks=[],
                 tmem=[lex.lex(m.line) for m in self.items], exc=core.exc_name(exc) if exc is not None else "",
                 ret=bool(ret) if exc is None else False, src="tests")
        _emit("Trace_C13", None, e)
    _wrap_method(AddrGroup, "__contains__", rec_in_group)


# ------------------------------------------------------------------ module-level functions: collapse -> Trace_C14, range_* -> Trace_C18

def _wrap_func(mod, name, pre, post, also=()):
    orig = getattr(mod, name)

    def fn(*args, **kw):
        if _busy[0]:
            return orig(*args, **kw)
        _busy[0] += 1
        try:
            ctx = None
            try:
                ctx = pre(args, kw)
            except Exception:  # noqa
                ctx = None
            if ctx is None:
                _skip()
            ret, exc = None, None
            try:
                ret = orig(*args, **kw)
                return ret
            except Exception as ex:
                exc = ex
                raise
            finally:
                if ctx is not None:
                    try:
                        post(ctx, args, kw, ret, exc)
                    except Exception:  # noqa
                        _skip()
        finally:
            _busy[0] -= 1
    setattr(mod, name, fn)
    for m in also:
        if getattr(m, name, None) is orig:
            setattr(m, name, fn)


def install_funcs():
    import cisco_acl
    from cisco_acl import Address, AddressAg, address, address_ag, functions

    def collapse_pre(cls):
        def pre(args, kw):
            objs = args[0] if args else kw.get("addresses")
            if not isinstance(objs, (list, tuple)) or len(args) + len(kw) != 1:
                return None
            mine = [o for o in objs if type(o) is cls]
            plats = {o.platform for o in mine}
            if len(plats) > 1 or (plats and next(iter(plats)) not in ("ios", "nxos")) or not mine:
                return None
            if any(getattr(o, "items", None) for o in mine) or any(o.type == "addrgroup" for o in mine if hasattr(o, "type")):
                return None       # grouped operands: outside C14's domain
            return dict(objs=list(objs), mine=mine, plat=mine[0].platform, before=[o.line for o in objs if hasattr(o, "line")],
                        inp=[lex.lex(o.line) for o in mine])
        return pre

    def collapse_post(cls):
        def post(ctx, args, kw, ret, exc):
            e = dict(tid=0, i=0, act="Collapse", cls=cls.__name__, plat=ctx["plat"], inp=ctx["inp"], foreign=len(ctx["mine"]) != len(ctx["objs"]),
                     exc=core.exc_name(exc) if exc is not None else "", out=[], notes_empty=True, same_kind=True, src="tests")
            if exc is None:
                e["out"] = [lex.lex(o.line) for o in ret]
                e["notes_empty"] = all(o.note in ("", None) for o in ret)
                e["same_kind"] = all(type(o) is cls and o.platform == ctx["plat"] for o in ret)
                if [o.line for o in ctx["objs"] if hasattr(o, "line")] != ctx["before"]:
                    e["same_kind"] = False
            _emit("Trace_C14", None, e)
        return post
    _wrap_func(address, "collapse", collapse_pre(Address), collapse_post(Address))
    _wrap_func(address_ag, "collapse", collapse_pre(AddressAg), collapse_post(AddressAg))

    from harness.c18 import req_items

    def ports_pre(args, kw):
        names = ["srcports", "dstports", "line", "platform", "port_nr", "port_count", "port_range"]
        k = dict(zip(names, args))
        k.update(kw)
        if not set(k) <= set(names):
            return None
        plat = k.get("platform") or "ios"
        if plat not in ("ios", "nxos") or not isinstance(k.get("line", ""), str):
            return None
        k = dict(srcports=k.get("srcports", ""), dstports=k.get("dstports", ""), line=k.get("line", "permit tcp any any"), platform=plat,
                 port_nr=bool(k.get("port_nr", False)), port_count=k.get("port_count", 1), port_range=bool(k.get("port_range", True)))
        if not (isinstance(k["port_count"], int) and not isinstance(k["port_count"], bool) and 0 <= k["port_count"] <= 100):
            return None
        return dict(k=k, srcreq=req_items(k["srcports"]), dstreq=req_items(k["dstports"]))

    def ports_post(ctx, args, kw, ret, exc):
        k = ctx["k"]
        e = dict(tid=0, i=0, act="Ports", plat=k["platform"], tpl=lex.lex(k["line"]), exc=core.exc_name(exc) if exc is not None else "", out=[], nsrc=0,
                 srcreq=ctx["srcreq"], dstreq=ctx["dstreq"], port_count=k["port_count"] or 0, port_range=k["port_range"], port_nr=k["port_nr"],
                 protocol_nr=False, protoreq=[], src="tests")
        if exc is None:
            e["out"] = [lex.lex(x) for x in ret]
            if k["srcports"] and k["dstports"]:
                e["nsrc"] = len(functions.range_ports(**dict(k, dstports="")))
            elif k["srcports"]:
                e["nsrc"] = len(ret)
        _emit("Trace_C18", None, e)
    _wrap_func(functions, "range_ports", ports_pre, ports_post, also=(cisco_acl,))

    def protos_pre(args, kw):
        if args or not set(kw) <= {"protocols", "line", "platform", "protocol_nr"}:
            return None
        plat = kw.get("platform") or "ios"
        if plat not in ("ios", "nxos") or not isinstance(kw.get("protocols", ""), str) or not isinstance(kw.get("line", ""), str):
            return None
        return dict(plat=plat, line=kw.get("line", "permit tcp any any"), protocol_nr=bool(kw.get("protocol_nr", False)), protoreq=req_items(kw.get("protocols", "")))

    def protos_post(ctx, args, kw, ret, exc):
        e = dict(tid=0, i=0, act="Protocols", plat=ctx["plat"], tpl=lex.lex(ctx["line"]), exc=core.exc_name(exc) if exc is not None else "", out=[], nsrc=0,
                 srcreq=[], dstreq=[], port_count=1, port_range=True, port_nr=False, protocol_nr=ctx["protocol_nr"], protoreq=ctx["protoreq"], src="tests")
        if exc is None:
            e["out"] = [lex.lex(x) for x in ret]
        _emit("Trace_C18", None, e)
    _wrap_func(functions, "range_protocols", protos_pre, protos_post, also=(cisco_acl,))


# ------------------------------------------------------------------ AceGroup / AddrGroup .resequence -> Trace_C10 (pairs: Given, call)

def install_reseq():
    from cisco_acl import AceGroup, AddrGroup
    from harness import c10

    def wrap(cls):
        orig = cls.resequence

        def resequence(self, *args, **kw):
            if _busy[0] or type(self) is not cls:
                return orig(self, *args, **kw)
            _busy[0] += 1
            try:
                before = None
                try:
                    s = args[0] if args else kw.get("start", 10)
                    d = args[1] if len(args) > 1 else kw.get("step", 10)
                    if len(args) <= 2 and set(kw) <= {"start", "step"} and _is_int(s) and _is_int(d) and abs(s) < 2 ** 40 and abs(d) < 2 ** 40:
                        before = c10.proj(self)
                    else:
                        _skip()
                except Exception:  # noqa
                    before = None
                ret, exc = None, None
                try:
                    ret = orig(self, *args, **kw)
                    return ret
                except Exception as ex:
                    exc = ex
                    raise
                finally:
                    if before is not None:
                        try:
                            key = ("reseq", _seq[0] + 1)
                            e = dict(tid=0, i=1, act="Resequence", s=lex.limbs(s), d=lex.limbs(d), exc=core.exc_name(exc) if exc is not None else "",
                                     ret=lex.limbs(int(ret)) if exc is None else [0, 0], obs=c10.proj(self), src="tests")
                            _emit("Trace_C10", key, dict(tid=0, i=0, act="Given", s=[0, 0], d=[0, 0], exc="", ret=[0, 0], obs=before, src="tests"))
                            _emit("Trace_C10", key, e)
                        except Exception:  # noqa
                            _skip()
            finally:
                _busy[0] -= 1
        cls.resequence = resequence
    wrap(AceGroup)
    wrap(AddrGroup)


def dump():
    if not OUT:
        return
    # group per-object histories into contiguous traces; single events are traces of their own
    by_key, order = {}, []
    for mod, key, seq, e in EVENTS:
        k = (mod, key if key is not None else ("single", seq))
        if k not in by_key:
            by_key[k] = []
            order.append(k)
        by_key[k].append(e)
    with open(OUT, "w") as f:
        tid = 0
        for k in order:
            tid += 1
            for i, e in enumerate(by_key[k]):
                e["tid"], e["i"] = tid, i
                f.write(json.dumps(dict(mod=k[0], e=e)) + "\n")
        f.write(json.dumps(dict(mod="stats", e=dict(STATS, events=len(EVENTS)))) + "\n")


# ------------------------------------------------------------------ pytest hooks

def pytest_configure(config):
    if OUT:
        install()
        install_acl()
        install_addr()
        install_funcs()
        install_reseq()


def pytest_unconfigure(config):
    dump()
