"""C05 - Wildcard -> prefixes exact; limits reject, never truncate; nothing stale.

spec: AddrSem.tla (PrefixDecomp, IsContig), WildcardObj.tla (object with its memo)
mc:   MC_AddrSem (lemmas), MC_WildcardObj (all histories, NoStale), deviation run (vacuity guard)
bind: TLC-generated histories -> windows -> one live Wildcard object per history; random full-size
      histories; Address-level views; all judged by Trace_C05 at W = 32.
"""
from __future__ import annotations

import json
import random

from harness import core, lex

PROP = "C05"
TRACE_MODULES = ["Trace_C05"]
ZW = dict(base=lex.Z32, mask=lex.Z32)


# ------------------------------------------------------------------ execution (worker processes)

def _line(obj):
    return lex.wild_of_text(obj.line)


def exec_history(job):
    from cisco_acl import Wildcard, Address, AddressAg
    events, obj, holder = [], None, None
    cls = job.get("cls", "Wildcard")   # the same machine behind Address / AddressAg (wildcard view of the address)
    for i, s in enumerate(job["steps"]):
        e = dict(tid=job["tid"], i=i, act=s["act"], w=s.get("w", ZW), limit=s.get("limit", 0), exc="", line=ZW, ret=[])
        try:
            if s["act"] == "New":
                obj = None
                if s.get("via") == "fprefix":
                    obj = Wildcard.fprefix(s["text"], max_ncwb=s["limit"])
                elif s.get("via") == "fsubnet":
                    obj = Wildcard.fsubnet(s["text"], max_ncwb=s["limit"])
                elif cls == "Address":
                    obj = Address(lex.wild_text(s["w"]), platform="ios", max_ncwb=s["limit"])
                elif cls == "AddressAg":
                    obj = AddressAg(lex.wild_text(s["w"]), platform="nxos", max_ncwb=s["limit"])
                elif cls == "Member":      # a member of a named address group given as text: it is held to the group address's limit
                    holder = Address("object-group G", platform="ios", max_ncwb=s["limit"], items=[lex.wild_text(s["w"])])
                    obj = holder.items[0]
                else:
                    obj = Wildcard(lex.wild_text(s["w"]), max_ncwb=s["limit"])
            elif s["act"] == "SetLine" and cls == "Member":
                holder.items = [lex.wild_text(s["w"])]       # members replaced through the group address: built under its limit
                obj = holder.items[0]
            elif s["act"] == "SetLimit" and cls == "Member":
                holder.max_ncwb = s["limit"]
            elif s["act"] == "SetLine":
                obj.line = lex.wild_text(s["w"])
            elif s["act"] == "SetLimit":
                obj.max_ncwb = s["limit"]
            elif s["act"] == "QueryIpnets":
                # driver safety only: never ask the library to expand more than 2^10 networks
                m = lex.wild_of_text(obj.line if cls == "Wildcard" else obj.wildcard)["mask"]
                while m and m[-1] == 1:
                    m = m[:-1]
                if sum(m) > 10:
                    continue
                e["ret"] = [lex.pfx_of_net(n) for n in obj.ipnets()]
            elif s["act"] == "QueryIpnet":
                e["ret"] = [lex.pfx_of_net(obj.ipnet)] if obj.ipnet is not None else []
            elif s["act"] == "QueryLine":
                if cls == "Wildcard":
                    e["ret"] = [lex.wild_of_text(obj.line), lex.wild_of_text(f"{obj.prefix} {obj.wildmask}"),
                                lex.wild_of_text(str(obj))]
                else:
                    e["ret"] = [lex.wild_of_text(obj.wildcard)] * 3
        except Exception as ex:  # noqa
            e["exc"] = core.exc_name(ex)
        if obj is not None:
            e["line"] = _line(obj) if cls == "Wildcard" else lex.wild_of_text(obj.wildcard)
        events.append(e)
        if obj is None:
            break
    return events


def exec_addr(job):
    """Address-level views of one wildcard in one spelling on a fresh object."""
    from cisco_acl import Address
    events = []
    base = dict(tid=job["tid"], w=job["w"], limit=job["limit"], line=ZW)
    try:
        a = Address(job["text"], platform=job["platform"], max_ncwb=job["limit"])
    except Exception as ex:  # noqa
        return [dict(base, i=0, act="AddrNets", exc=core.exc_name(ex), ret=[])]
    for i, (act, fn) in enumerate([
        ("AddrNets", lambda: [lex.pfx_of_net(n) for n in a.ipnets()]),
        ("AddrNets", lambda: [lex.pfx_of_text(s) for s in a.prefixes()]),
        ("AddrSubnets", lambda: [dict(bits=lex.ip_bits(s.split()[0]), mask=lex.ip_bits(s.split()[1])) for s in a.subnets()]),
    ]):
        e = dict(base, i=i, act=act, exc="", ret=[])
        try:
            e["ret"] = fn()
        except Exception as ex:  # noqa
            e["exc"] = core.exc_name(ex)
        events.append(e)
    return events


# ------------------------------------------------------------------ case construction (no semantics)

def windows(tier):
    ws = [lex.Window(8, 0x0A000000, True), lex.Window(13, 0xC0A80000 | 0x00051234, False),
          lex.Window(29, 0xAC10FE00, True)]
    if tier == "thorough":
        ws += [lex.Window(0, 0, True), lex.Window(0, 0x1FFFFFFF & 0x15A5A5A5, False), lex.Window(5, 0x50000000, True),
               lex.Window(24, 0x0A0B0C00 | 0x5A, False), lex.Window(16, 0x64400000, True)]
    return ws


def rand_wild(rng, k_nc, low):
    """Random (base, mask) with exactly k_nc wildcard bits above a low run of `low` ones."""
    mask = [0] * 32
    for i in range(32 - low, 32):
        mask[i] = 1
    hi = list(range(0, 32 - low - 1))  # bit just above the low run stays 0
    for i in rng.sample(hi, min(k_nc, len(hi))):
        mask[i] = 1
    base = [rng.randint(0, 1) for _ in range(32)]  # dirty bits under the mask on purpose
    return dict(base=base, mask=mask)


def random_histories(rng, n, tid0):
    jobs = []
    for t in range(n):
        cls = rng.choice(["Wildcard", "Wildcard", "Wildcard", "Address", "Address", "AddressAg", "Member"])
        limit = rng.choice([0, 1, 2, 3, 5, 8, 10, 16, 30])
        steps = []
        nset = rng.randint(1, 4)
        for j in range(nset):
            k = rng.choice([0, 0, 1, 2, 3, max(0, limit - 1), limit, limit + 1, rng.randint(0, 12)])
            k = min(k, 31)
            low = rng.randint(0, max(0, 31 - k - 1)) if rng.random() < 0.8 else 0
            w = rand_wild(rng, k, low)
            steps.append(dict(act="New" if j == 0 else "SetLine", w=w, limit=limit))
            kk = sum(w["mask"][: 32 - low])
            if rng.random() < 0.25:
                limit = rng.choice([0, 1, 2, 3, 5, 8, 10, 16, 30] + ([31] if cls == "Wildcard" else []))   # 31: refused by Wildcard
                steps.append(dict(act="SetLimit", limit=limit))
                limit = min(limit, 30)
            for _ in range(rng.randint(0, 3)):
                q = rng.choice(["QueryIpnets", "QueryIpnet", "QueryLine", "QueryIpnets"])
                if q == "QueryIpnets" and (kk > 10 or limit > 10):
                    q = "QueryIpnet"   # never expand more than 2^10 networks
                steps.append(dict(act=q))
        jobs.append(dict(tid=tid0 + t, steps=steps, origin="random", cls=cls))
    return jobs


def limit_histories(tid0):
    """Every limit 0..30 with masks of k = limit-1, limit, limit+1 non-contiguous bits (accept/reject only,
    lists compared only when small)."""
    jobs, t = [], tid0
    rng = random.Random(12345)
    for limit in range(0, 31):
        for k in {max(0, limit - 1), limit, min(31, limit + 1)}:
            for low in (0, 1 if k < 30 else 0):
                if k + low > 31:
                    continue
                w = rand_wild(rng, k, low)
                if sum(w["mask"]) != k + low:
                    continue
                steps = [dict(act="New", w=w, limit=limit), dict(act="QueryIpnet"), dict(act="QueryLine")]
                if k <= 8:
                    steps.append(dict(act="QueryIpnets"))
                # then try to push the object over / under its limit by reassignment
                w2 = rand_wild(rng, min(31, limit + 1), 0)
                steps += [dict(act="SetLine", w=w2, limit=limit), dict(act="QueryLine")]
                if k <= 8:
                    steps.append(dict(act="QueryIpnets"))
                jobs.append(dict(tid=t, steps=steps, origin="limit"))
                t += 1
    return jobs


def addr_jobs(rng, n, tid0):
    jobs, t = [], tid0
    for _ in range(n):
        k = rng.choice([0, 0, 0, 1, 2, 3, 6])
        low = rng.randint(0, 31 - k) if k < 31 else 0
        w = rand_wild(rng, k, low)
        if rng.random() < 0.15:
            w, k, low = dict(base=[rng.randint(0, 1) for _ in range(32)], mask=[0] * 32), 0, 0
        if rng.random() < 0.05:
            w, k, low = dict(base=[rng.randint(0, 1) for _ in range(32)], mask=[1] * 32), 0, 32
        platform = rng.choice(["ios", "nxos"])
        spellings = [lex.wild_text(w)]
        if sum(w["mask"]) == 0:
            spellings.append("host " + lex.bits_ip(w["base"]))
            spellings.append(lex.bits_ip(w["base"]) + "/32")
        if sum(w["mask"]) == 32:
            spellings.append("any")
        if k == 0:  # contiguous: prefix spelling (possibly with host bits set -> library fixes with a warning)
            spellings.append(f"{lex.bits_ip(w['base'])}/{32 - low}")
        for text in spellings:
            jobs.append(dict(tid=t, w=w, limit=16, text=text, platform=platform, origin="addr"))
            t += 1
    return jobs


def fromtext_histories(rng, n, tid0):
    """Wildcard.fprefix / fsubnet constructors followed by queries and a reassignment."""
    jobs, t = [], tid0
    for _ in range(n):
        ln = rng.randint(0, 32)
        base = [rng.randint(0, 1) if i < ln else 0 for i in range(32)]
        mask = [0 if i < ln else 1 for i in range(32)]
        w = dict(base=base, mask=mask)
        netmask = [1 - b for b in mask]
        via = rng.choice(["fprefix", "fsubnet"])
        text = f"{lex.bits_ip(base)}/{ln}" if via == "fprefix" else f"{lex.bits_ip(base)} {lex.bits_ip(netmask)}"
        w2 = rand_wild(rng, rng.choice([0, 1, 2]), rng.randint(0, 8))
        steps = [dict(act="New", w=w, limit=16, via=via, text=text), dict(act="QueryIpnets"), dict(act="QueryIpnet"),
                 dict(act="SetLine", w=w2), dict(act="QueryIpnets"), dict(act="QueryLine"), dict(act="QueryIpnet")]
        jobs.append(dict(tid=t, steps=steps, origin=via))
        t += 1
    return jobs


def concretise(hists, wins, tid0):
    jobs, t = [], tid0
    for h in hists:
        for win in wins:
            steps = []
            for s in h["hist"]:
                st = dict(act=s["act"])
                if s["act"] in ("New", "SetLine"):
                    st["w"] = win.wild(s["w"])
                    st["limit"] = s["limit"]
                if s["act"] == "SetLimit":
                    st["limit"] = s["limit"]
                steps.append(st)
            cls = ["Wildcard", "Address", "Wildcard", "AddressAg"][t % 4]
            if any(x["act"] == "SetLimit" and x["limit"] > 30 for x in steps):
                cls = "Wildcard"
            jobs.append(dict(tid=t, steps=steps, origin="tlc", window=win.desc(), cls=cls))
            t += 1
    return jobs


def nontrivial(job):
    """A history is non-trivial if a query follows a line reassignment, or a mask is non-contiguous,
    or a limit decision is involved."""
    steps = job.get("steps")
    if steps is None:
        return True
    seen_set = False
    for s in steps:
        if s["act"] == "SetLine":
            seen_set = True
        elif s["act"].startswith("Query") and seen_set:
            return True
    return False


# ------------------------------------------------------------------ run

def run(tier, seed):
    rng = random.Random(seed * 7919 + 5)
    mcs = [core.mc("MC_AddrSem", "MC_AddrSem" if tier == "quick" else "MC_AddrSem_W4"),
           core.mc("MC_WildcardObj", workers=8),
           core.mc("MC_WildcardObj", "MC_WildcardObj_deviate", workers=8, expect_violation="NoStale")]
    hists, gen = core.generate("MC_WildcardObj", "MC_WildcardObj_gen" if tier == "quick" else "MC_WildcardObj_gen_thorough")
    if tier == "quick":
        rng2 = random.Random(seed + 1)
        hists = [h for h in hists if rng2.random() < 0.35]
    else:
        hists = core.cap(hists, 25000, random.Random(seed + 1))
    jobs = concretise(hists, windows(tier), 1)
    tid = len(jobs) + 1
    jobs += limit_histories(tid)
    tid = len(jobs) + 1
    nrand = 1500 if tier == "quick" else 30000
    jobs += random_histories(rng, nrand, tid)
    tid = len(jobs) + 1
    jobs += fromtext_histories(rng, 300 if tier == "quick" else 5000, tid)
    tid = len(jobs) + 1
    ajobs = addr_jobs(rng, 600 if tier == "quick" else 12000, tid)

    ev_lists = core.pmap(exec_history, jobs) + core.pmap(exec_addr, ajobs)
    alljobs = jobs + ajobs
    events = [e for evs in ev_lists for e in evs]
    verdicts, vstats = core.validate("Trace_C05", events)

    by_tid = {j["tid"]: (j, evs) for j, evs in zip(alljobs, ev_lists)}
    out = []
    for v in verdicts:
        j, evs = by_tid[v["tid"]]
        feats = dict(origin=j.get("origin"), act=next((e["act"] for e in evs if e["i"] == v["i"]), "?"))
        out.append(dict(clause=v["clause"], features=feats, case=j, events=evs))
    distinct = {json.dumps(j.get("steps", j.get("text")), sort_keys=True) for j in alljobs if nontrivial(j)}
    cov = dict(
        states=sum(m.get("states", 0) for m in mcs) + gen["states"],
        transitions=sum(m.get("states", 0) for m in mcs),
        distinct_states=sum(m.get("distinct", 0) for m in mcs),
        traces_validated_against_impl=len(alljobs),
        evaluations=len(events),
        distinct_nontrivial=len(distinct),
        rule="a trace is one history on ONE live Wildcard object (New, then line reassignments interleaved with "
             "ipnets()/ipnet/line queries) or one fresh Address with its ipnets()/prefixes()/subnets(); histories come "
             "from (a) every maximal path TLC enumerates in MC_WildcardObj (generator cfg) embedded through address "
             "windows, (b) every limit 0..30 with k = limit-1, limit, limit+1 non-contiguous bits, (c) seeded random "
             "32-bit histories, (d) fprefix/fsubnet constructors; non-trivial = a query follows a reassignment, or an "
             "Address view; the same histories also on Address / AddressAg objects and on a member of a group address built "
             "from text (held to the group address's limit); distinct = distinct step lists",
        samples=[dict(job=alljobs[i], events=ev_lists[i]) for i in (0, len(jobs) - 1, len(alljobs) - 1)],
        model_checking=mcs, generation=gen, trace_validation=vstats,
        exhaustive=False,
        checker_cmd="tlc MC_AddrSem / MC_WildcardObj (invariants NoStale, TypeOK; properties AnswerFresh, RefuseKeeps, "
                    "LimitRejects) ; tlc Trace_C05 (W=32) on recorded events",
    )
    return dict(verdicts=out, coverage=cov, level="model_checking",
                assumptions=["ipnets() lists longer than 2^10 networks are not expanded; for 10 < k the accept/reject "
                             "decision and the single-network answer are still checked"])


def replay(path):
    with open(path) as f:
        r = json.load(f)
    job = r["case"]
    core._init_worker(core.REPO)
    evs = exec_addr(job) if "text" in job and "steps" not in job else exec_history(job)
    verdicts, _ = core.validate("Trace_C05", evs, nchunks=1)
    for v in verdicts:
        print("REPLAY verdict:", v)
    print("REPLAY events:", len(evs))
    return 1 if verdicts else 0
