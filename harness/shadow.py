"""Shared driver for Ace.shadow_of (C03 soundness / monotonicity, C11 exactness).

spec: AceText.tla (reader), AceSem.tla (Matches, ShadowExact/Sym/Lib)
mc:   MC_AceSem (src side) + MC_AceSem_dst: every ordered pair of a 298-entry universe x every packet
bind: the related / nearly related pairs TLC prints, concretised (address window, port map, spellings, both
      platforms), asked with all four skip subsets (+ the combined list in both orders) on live Ace objects, with
      in-place edits of address-group members between repeated queries; random full-size pairs (bottom derived
      from top by narrowing / widening one field).  Judge: Trace_Shadow.
"""
from __future__ import annotations

import json
import random

from harness import core, lex
from harness.c13 import spellings_ace, clean, nc_count

PROTO_TXT = {0: ["ip", "0"], 6: ["tcp", "6"], 17: ["udp", "17"], 1: ["icmp", "1"], 47: ["gre", "47"], 89: ["ospf", "89"], 200: ["200"], 201: ["201"], 255: ["255"]}
SKIPS = [None, ["addrgroup"], ["nc_wildcard"], ["addrgroup", "nc_wildcard"], ["nc_wildcard", "addrgroup"]]


def exec_config_job(job):
    """the two entries come out of cisco_acl.acls(config): members are attached by the library from (nested) group sections
    of the configuration; the event still states the members the configuration defines"""
    import cisco_acl
    plat = job["plat"]

    def side(x):
        return dict(toks=lex.lex(x["line"]), smem=[lex.lex(m) for m in x["smem"]], dmem=[lex.lex(m) for m in x["dmem"]])
    events = []
    try:
        acl = cisco_acl.acls(job["config"], platform=plat)[0]
        aces = [x for x in acl.items if type(x).__name__ == "Ace"]
    except Exception as ex:  # noqa
        return [dict(tid=job["tid"], i=0, act="ShadowOf", plat=plat, vmajor=0, b=side(job["entries"][0]), t=side(job["entries"][0]), exc="Build",
                     rets=[False] * 5, detail=repr(ex)[:200])]
    k = 0
    for ti in range(len(aces)):
        for bi in range(ti + 1, len(aces)):
            e = dict(tid=job["tid"], i=k, act="ShadowOf", plat=plat, vmajor=0, b=side(job["entries"][bi]), t=side(job["entries"][ti]), exc="", rets=[False] * 5)
            try:
                e["rets"] = [bool(aces[bi].shadow_of(aces[ti], skip=s)) for s in SKIPS]
            except Exception as ex:  # noqa
                e["exc"] = core.exc_name(ex)
            events.append(e)
            k += 1
    return events


def config_jobs(rng, n, tid0):
    """IOS configurations: OUTER = some members + group-object INNER, INNER = more members; three or four entries naming OUTER
    (more than once), INNER and plain addresses built from the same blocks"""
    from harness.c13 import spellings_member
    jobs, t = [], tid0
    for _ in range(n):
        ln = rng.randint(8, 30)
        k = rng.randrange(4, 2 ** min(ln, 20) - 8)
        blocks = [blk(k + j, ln) for j in range(4)]
        outer_own, inner_own = blocks[: rng.randint(1, 2)], blocks[2: 2 + rng.randint(1, 2)]

        def mem_lines(ws):
            return [rng.choice([x for x in spellings_member(w, "ios") if "/" not in x] or ["host 10.0.0.1"]) for w in ws]

        def ace_addr(w):
            return rng.choice([x for x in spellings_ace(w, "ios") if "/" not in x])
        nested_first = rng.random() < 0.5
        sec_outer = ["object-group network OUTER"] + [" " + m for m in mem_lines(outer_own)] + [" group-object INNER"]
        sec_inner = ["object-group network INNER"] + [" " + m for m in mem_lines(inner_own)]
        act = rng.choice(["permit", "deny"])
        flat_outer = [ace_addr(w) for w in outer_own + inner_own]
        flat_inner = [ace_addr(w) for w in inner_own]
        pool = [dict(line=f"{act} ip object-group OUTER any", smem=flat_outer, dmem=[]),
                dict(line=f"{act} ip {ace_addr(rng.choice(blocks))} any", smem=[], dmem=[]),
                dict(line=f"{act} tcp object-group OUTER any", smem=flat_outer, dmem=[]),
                dict(line=f"{act} ip object-group INNER any", smem=flat_inner, dmem=[]),
                dict(line=f"{act} udp any object-group OUTER", smem=[], dmem=flat_outer)]
        entries = [pool[0]] + rng.sample(pool[1:], rng.randint(2, 3))
        rng.shuffle(entries)
        acl_sec = ["ip access-list extended A"] + [" " + x["line"] for x in entries]
        secs = [sec_inner, sec_outer] if nested_first else [sec_outer, sec_inner]
        pos = rng.randint(0, 2)
        secs.insert(pos, acl_sec)
        jobs.append(dict(tid=t, plat="ios", config="\n".join("\n".join(x) for x in secs) + "\n", entries=entries, origin="config-nested-groups",
                         b=entries[-1], t=entries[0]))
        t += 1
    return jobs


def exec_any(job):
    return exec_config_job(job) if "config" in job else exec_job(job)


def exec_job(job):
    from cisco_acl import Ace, Address
    plat = job["plat"]

    def side(x):
        return dict(toks=lex.lex(x["line"]), smem=[lex.lex(m) for m in x["smem"]], dmem=[lex.lex(m) for m in x["dmem"]])
    e = dict(tid=job["tid"], i=0, act="ShadowOf", plat=plat, vmajor=0, b=side(job["b"]), t=side(job["t"]), exc="",
             rets=[False] * 5)
    try:
        objs = []
        for x in (job["b"], job["t"]):
            a = Ace(x["line"], platform=plat)
            if x["smem"] or a.srcaddr.type == "addrgroup":
                a.srcaddr.items = list(x["smem"])
            if x["dmem"] or a.dstaddr.type == "addrgroup":
                a.dstaddr.items = list(x["dmem"])
            objs.append(a)
        b, t = objs
    except Exception as ex:  # noqa
        e["exc"] = "Build"
        e["detail"] = repr(ex)[:200]
        return [e]

    def ask(ev):
        nonlocal b, t
        try:
            ev["rets"] = [bool(b.shadow_of(t, skip=s)) for s in SKIPS]
        except Exception as ex:  # noqa
            ev["exc"] = core.exc_name(ex)
    ask(e)
    events = [e]
    cur = dict(b=dict(smem=list(job["b"]["smem"]), dmem=list(job["b"]["dmem"])), t=dict(smem=list(job["t"]["smem"]), dmem=list(job["t"]["dmem"])))
    for k, m in enumerate(job.get("muts") or [], start=1):
        ace = b if m["who"] == "b" else t
        addr = ace.srcaddr if m["fld"] == "smem" else ace.dstaddr
        mem = cur[m["who"]][m["fld"]]
        e2 = dict(events[-1], i=k, exc="", rets=[False] * 5)      # texts / members as they stand after the steps so far
        try:
            if m["op"] == "clearport":    # the port expression of one side removed through the port's own setter: the entry now matches every port
                (ace.srcport if m["fld"] == "smem" else ace.dstport).line = ""
            elif m["op"] == "rebuild":      # the same entry built again (members are part of it): same answers expected
                if m["how"] == "copy":
                    ace = ace.copy()
                elif m["how"] == "data":
                    ace = Ace(**ace.data())
                else:
                    ace.line = ace.line
                if m["who"] == "b":
                    b = ace
                else:
                    t = ace
            elif m["op"] == "append":
                addr.items.append(Address(m["text"], platform=plat))
                mem.append(m["text"])
            elif m["op"] == "del":
                del addr.items[m["idx"]]
                del mem[m["idx"]]
            else:
                addr.items[m["idx"]].line = m["text"]
                mem[m["idx"]] = m["text"]
        except Exception as ex:  # noqa
            e2["exc"] = "Build"
            events.append(e2)
            break
        for who in "bt":
            e2[who] = dict(events[-1][who], smem=[lex.lex(x) for x in cur[who]["smem"]], dmem=[lex.lex(x) for x in cur[who]["dmem"]])
        if m["op"] == "clearport":
            e2[m["who"]] = dict(e2[m["who"]], toks=lex.lex((b if m["who"] == "b" else t).line))
        ask(e2)
        events.append(e2)
    return events


# ------------------------------------------------------------------ rendering model entries (format only)

PORT_MAPS = [[1, 80, 65535], [1, 2, 3], [22, 23, 65535], [1, 443, 1024]]


def render_model(rng, x, win, pmap, plat, numeric_proto=False):
    def addr(spec, mem, grp):
        if spec["k"] == "group":
            name = ("addrgroup " if plat == "nxos" else "object-group ") + grp
            return name, [rng.choice(spellings_ace(clean(win.wild(m)), plat)) for m in mem]
        return rng.choice(spellings_ace(clean(win.wild(spec["w"])), plat)), []

    def port(pe):
        if pe["op"] == "":
            return ""
        its = [pmap[i - 1] for i in pe["items"]]
        if pe["op"] == "range" and rng.random() < 0.3:
            its = its[::-1]
        return pe["op"] + " " + " ".join(str(i) for i in its)
    s, smem = addr(x["src"], x["smem"], "GS")
    d, dmem = addr(x["dst"], x["dmem"], "GD")
    pt = PROTO_TXT[x["proto"]]
    proto = pt[-1] if numeric_proto else pt[0]
    parts = [x["act"], proto, s, port(x["sp"]), d, port(x["dp"]), " ".join(x["flags"])]
    return dict(line=" ".join(p for p in parts if p), smem=smem, dmem=dmem)


def multi_eq(x):
    return any(pe["op"] in ("eq", "neq") and len(pe["items"]) > 1 for pe in (x["sp"], x["dp"]))


def from_pairs(rng, pairs, tid0, wins):
    jobs, t = [], tid0
    for pr in pairs:
        win, pmap = rng.choice(wins), rng.choice(PORT_MAPS)
        for plat in ("ios", "nxos"):
            if plat == "nxos" and (multi_eq(pr["b"]) or multi_eq(pr["t"])):
                continue
            job = dict(tid=t, plat=plat, b=render_model(rng, pr["b"], win, pmap, plat, rng.random() < 0.2),
                       t=render_model(rng, pr["t"], win, pmap, plat, rng.random() < 0.2), origin="tlc",
                       model_truth=pr["truth"])
            jobs.append(job)
            t += 1
    return jobs


# ------------------------------------------------------------------ random full-size pairs

def rand_w(rng, maxnc=3):
    k = rng.choice([0, 0, 0, 1, 2, maxnc])
    low = rng.randint(0, 32 - k) if k < 32 else 0
    mask = [0] * (32 - low) + [1] * low
    free = list(range(0, max(0, 32 - low - 1)))
    for i in rng.sample(free, min(k, len(free))):
        mask[i] = 1
    return clean(dict(base=[rng.randint(0, 1) for _ in range(32)], mask=mask))


def narrow_w(rng, w):
    """a wildcard inside w (clear one wild bit) / around w (set one fixed bit) / beside it (flip a fixed bit)"""
    for _ in range(30):
        w2 = dict(base=list(w["base"]), mask=list(w["mask"]))
        i = rng.randrange(32)
        r = rng.random()
        if r < 0.45 and w2["mask"][i] == 1:
            w2["mask"][i] = 0
            w2["base"][i] = rng.randint(0, 1)
        elif r < 0.7 and w2["mask"][i] == 0:
            w2["mask"][i] = 1
        elif w2["mask"][i] == 0:
            w2["base"][i] ^= 1
        else:
            continue
        w2 = clean(w2)
        if nc_count(w2["mask"]) <= 5:
            return w2
    return w


def rand_port(rng, allow_multi):
    op = rng.choice(["", "", "eq", "eq", "neq", "lt", "gt", "range"])
    if not op:
        return None
    if op in ("lt", "gt"):
        return [op, [rng.choice([0, 1, 2, 1023, 1024, 65534, 65535, rng.randint(1, 65535)])]]
    if op == "range":
        a = rng.choice([1, 80, 1024, rng.randint(1, 65000)])
        return [op, sorted([a, min(65535, a + rng.choice([0, 1, 10, 1000, 60000]))])]
    n = rng.randint(1, 4) if allow_multi else 1
    return [op, sorted(rng.sample([1, 22, 80, 443, 1024, 65535, 135, 15001, 521, 514, rng.randint(1, 65535), rng.randint(1, 65535)], n))]


def near_port(rng, p, allow_multi):
    """a port expression inside / around / beside p"""
    if p is None:
        return rand_port(rng, allow_multi) if rng.random() < 0.6 else None
    op, its = p
    r = rng.random()
    if r < 0.25:
        return p
    if op == "range":
        a, b = its
        c = rng.choice([[a, b], [a, max(a, b - 1)], [min(b, a + 1), b], [max(1, a - 1), b], [a, min(65535, b + 1)]])
        return rng.choice([["range", c], ["eq", [rng.choice([a, b, max(1, a - 1), min(65535, b + 1), (a + b) // 2])]]])
    if op in ("lt", "gt"):
        x = its[0]
        return rng.choice([[op, [max(1, min(65535, x + d))]] for d in (-1, 0, 1)] + [["eq", [max(1, min(65535, x + d))]] for d in (-1, 0, 1)]
                          + [["range", sorted([max(1, min(65535, x + rng.choice([-2, -1, 1, 2]))), rng.choice([1, 65535])])]])
    if op == "eq":
        sub = rng.sample(its, rng.randint(1, len(its)))
        extra = [min(65535, its[0] + 1)] if rng.random() < 0.3 else []
        c = sorted(set(sub + extra))
        if not allow_multi:
            c = c[:1]
        return rng.choice([["eq", c], ["range", [c[0], c[-1]]]])
    # neq
    return rng.choice([["neq", its], ["eq", [its[0]]], ["eq", [min(65535, its[0] + 1)]], ["lt", [its[0]]], ["gt", [its[0]]],
                       ["range", [1, 65535]], ["range", [max(1, its[0] - 1), its[0]]]])


FLAGS = ["ack", "fin", "psh", "rst", "syn", "urg"]


def ptxt(p):
    return "" if p is None else p[0] + " " + " ".join(str(i) for i in p[1])


def random_pair(rng, plat, groups):
    multi = plat == "ios"
    proto = rng.choice([0, 6, 6, 6, 17, 17, 1, 47, 200, 201, 255])
    tw_s, tw_d = rand_w(rng), rand_w(rng)
    top = dict(act=rng.choice(["permit", "deny"]), proto=proto, s=tw_s, d=tw_d,
               sp=rand_port(rng, multi) if proto in (6, 17) else None, dp=rand_port(rng, multi) if proto in (6, 17) else None,
               fl=rng.sample(FLAGS, rng.choice([0, 0, 1, 2, 3])) if proto == 6 else [], log=rng.choice(["", "log", "log-input"]))
    bp = proto if rng.random() < 0.75 else rng.choice([0, 6, 17, 1, 200, 201, 255])
    bot = dict(act=top["act"] if rng.random() < 0.85 else ("deny" if top["act"] == "permit" else "permit"), proto=bp,
               s=rng.choice([tw_s, narrow_w(rng, tw_s), narrow_w(rng, tw_s)]), d=rng.choice([tw_d, tw_d, narrow_w(rng, tw_d)]),
               sp=near_port(rng, top["sp"], multi) if bp in (6, 17) else None, dp=near_port(rng, top["dp"], multi) if bp in (6, 17) else None,
               fl=[], log=rng.choice(["", "log"]))
    if bp == 6:
        bot["fl"] = rng.choice([top["fl"], rng.sample(top["fl"], rng.randint(0, len(top["fl"]))) if top["fl"] else [],
                                rng.sample(FLAGS, rng.choice([0, 1, 2]))])

    def render(x, who):
        smem, dmem = [], []
        s = rng.choice(spellings_ace(x["s"], plat))
        d = rng.choice(spellings_ace(x["d"], plat))
        if groups and rng.random() < 0.35:
            s = ("addrgroup " if plat == "nxos" else "object-group ") + "S" + (who if rng.random() < 0.7 else "X")     # sometimes the same name, other members
            base = x["s"]
            smem = [rng.choice(spellings_ace(m, plat)) for m in
                    [rng.choice([base, narrow_w(rng, base), rand_w(rng)]) for _ in range(rng.randint(0, 3))]]
        if groups and rng.random() < 0.2:
            d = ("addrgroup " if plat == "nxos" else "object-group ") + "D" + (who if rng.random() < 0.7 else "X")
            base = x["d"]
            dmem = [rng.choice(spellings_ace(m, plat)) for m in
                    [rng.choice([base, narrow_w(rng, base)]) for _ in range(rng.randint(0, 2))]]
        pt = PROTO_TXT[x["proto"]]
        parts = [x["act"], rng.choice(pt), s, ptxt(x["sp"]), d, ptxt(x["dp"]), " ".join(x["fl"]), x["log"]]
        return dict(line=" ".join(p for p in parts if p), smem=smem, dmem=dmem)
    b, t = render(bot, "B"), render(top, "T")
    if rng.random() < 0.15:
        b, t = t, b
    return b, t


def random_jobs(rng, n, tid0, groups=True):
    jobs, t = [], tid0
    for _ in range(n):
        plat = rng.choice(["ios", "nxos"])
        b, tp = random_pair(rng, plat, groups)
        job = dict(tid=t, plat=plat, b=b, t=tp, origin="random")
        # histories: in-place edits of group members between repeated queries
        muts = []
        for who, x in (("b", b), ("t", tp)):
            for fld in ("smem", "dmem"):
                is_group = ("object-group" in x["line"] or "addrgroup" in x["line"])
                if is_group and rng.random() < 0.5 and (x[fld] or (("S" if fld == "smem" else "D") + who.upper()) in x["line"]):
                    n_ = len(x[fld])
                    op = rng.choice(["append", "del", "setline"]) if n_ else "append"
                    w = rand_w(rng)
                    muts.append(dict(who=who, fld=fld, op=op, idx=rng.randrange(n_) if n_ else 0,
                                     text=rng.choice(spellings_ace(w, plat) + (["any"] if rng.random() < 0.3 else []))))
        muts = muts[:2]
        if rng.random() < 0.12:
            who = rng.choice("bt")
            muts.append(dict(who=who, fld=rng.choice(["smem", "dmem"]), op="clearport"))
        if rng.random() < 0.25:
            muts.insert(rng.randint(0, len(muts)), dict(who=rng.choice("bt"), fld="smem", op="rebuild", how=rng.choice(["copy", "line", "data"])))
        if muts:
            job["muts"] = muts
            job["origin"] = "random-history"
        jobs.append(job)
        t += 1
    return jobs


def crossed_jobs(rng, n, tid0):
    """both addresses of the bottom entry are groups; the members of one side fit the top's *other* side, one member of
    the other side does not fit: the honest answer is False; then the bottom (or top) is built again and asked again"""
    jobs, t = [], tid0
    for _ in range(n):
        plat = rng.choice(["ios", "nxos"])
        kw = "addrgroup " if plat == "nxos" else "object-group "
        act, proto = rng.choice(["permit", "deny"]), rng.choice(["ip", "ip", "tcp", "udp", "icmp"])
        w = rand_w(rng)
        inside = [rng.choice(spellings_ace(rng.choice([w, narrow_w(rng, w)]), plat)) for _ in range(rng.randint(1, 2))]
        mixed = [rng.choice(spellings_ace(x, plat)) for x in [narrow_w(rng, w)] * rng.randint(0, 1) + [rand_w(rng)]]
        wide = rng.choice(["any", "any", rng.choice(spellings_ace(w, plat))])
        if rng.random() < 0.5:     # top constrains the destination
            top = dict(line=f"{act} {proto} {wide} {rng.choice(spellings_ace(w, plat))}", smem=[], dmem=[])
            bot = dict(line=f"{act} {proto} {kw}GS {kw}GD", smem=inside, dmem=mixed)
        else:                      # top constrains the source
            top = dict(line=f"{act} {proto} {rng.choice(spellings_ace(w, plat))} {wide}", smem=[], dmem=[])
            bot = dict(line=f"{act} {proto} {kw}GS {kw}GD", smem=mixed, dmem=inside)
        muts = [dict(who="b", fld="smem", op="rebuild", how=rng.choice(["copy", "line", "data"]))]
        if rng.random() < 0.3:
            muts.append(dict(who="t", fld="smem", op="rebuild", how=rng.choice(["copy", "line"])))
        jobs.append(dict(tid=t, plat=plat, b=bot, t=top, origin="crossed-rebuilt", muts=muts))
        t += 1
    return jobs


def blk(i, ln):
    """the i-th block of prefix length ln as a wildcard (construction only)"""
    v = (i << (32 - ln)) & 0xFFFFFFFF
    return dict(base=lex.int_bits(v), mask=[0] * ln + [1] * (32 - ln))


def adjacent_jobs(rng, n, tid0):
    """the top names a group of two or three equal-size neighbouring blocks (aligned or not); the bottom is one of them, the
    block before, the block after, or the smallest prefix that contains the run"""
    jobs, t = [], tid0
    for _ in range(n):
        plat = rng.choice(["ios", "nxos"])
        kw = "addrgroup " if plat == "nxos" else "object-group "
        act, proto = rng.choice(["permit", "deny"]), rng.choice(["ip", "ip", "tcp", "udp"])
        ln = rng.randint(8, 32)
        k = rng.randrange(1, 2 ** min(ln, 20) - 4)
        run = [k + j for j in range(rng.choice([2, 2, 3]))]
        mem = [rng.choice(spellings_ace(blk(i, ln), plat)) for i in run]
        rng.shuffle(mem) if rng.random() < 0.3 else None
        cand = [blk(run[0] - 1, ln), blk(run[-1] + 1, ln), blk(run[0], ln), blk(run[-1], ln), blk(run[0] >> 1, ln - 1), blk(run[0] >> 2, ln - 2)]
        baddr = rng.choice(spellings_ace(rng.choice(cand), plat))
        if rng.random() < 0.5:
            top = dict(line=f"{act} {proto} {kw}GS any", smem=mem, dmem=[])
            bot = dict(line=f"{act} {proto} {baddr} any", smem=[], dmem=[])
        else:
            top = dict(line=f"{act} {proto} any {kw}GD", smem=[], dmem=mem)
            bot = dict(line=f"{act} {proto} any {baddr}", smem=[], dmem=[])
        jobs.append(dict(tid=t, plat=plat, b=bot, t=top, origin="adjacent-blocks"))
        t += 1
    return jobs


def windows():
    return [lex.Window(8, 0x0A000000, True, w=2), lex.Window(22, 0xC0A80000 | 0x1400, False, w=2), lex.Window(30, 0xAC10FE00, True, w=2)]


def run_shadow(prop, tier, seed, groups):
    rng = random.Random(seed * 86028121 + (3 if prop == "C03" else 11))
    mcs = [core.mc("MC_AceSem"), core.mc("MC_AceSem", "MC_AceSem_dst")]
    pairs, gens = [], []
    for cfg in ("MC_AceSem_gen", "MC_AceSem_dst_gen"):
        ps, g = core.generate("MC_AceSem", cfg)
        pairs += ps
        gens.append(g)
    if not groups:
        pairs = [p for p in pairs if all(x[k]["k"] != "group" for x in (p["b"], p["t"]) for k in ("src", "dst"))]
    pairs = core.cap(pairs, 5000 if tier == "quick" else 80000, random.Random(seed + 6))
    jobs = from_pairs(rng, pairs, 1, windows())
    jobs += random_jobs(rng, 6000 if tier == "quick" else 150000, len(jobs) + 1, groups)
    if groups:
        jobs += crossed_jobs(rng, 400 if tier == "quick" else 10000, len(jobs) + 1)
        jobs += adjacent_jobs(rng, 300 if tier == "quick" else 8000, len(jobs) + 1)
        jobs += config_jobs(rng, 250 if tier == "quick" else 5000, len(jobs) + 1)
    hits, vstats, n_events, samples = core.exec_validate(exec_any, jobs, "Trace_Shadow", batch=40000, count=lambda e: any(e.get("rets", [])))
    reported = vstats.pop("counted", 0)
    out = []
    for v, j, evs in hits:
        if not (v["clause"].startswith(prop + ".") or v["clause"].startswith("machinery") or v["clause"].startswith("C01.")):
            continue   # the other property's clause: reported by that property's own check
        ev = next((x for x in evs if x["i"] == v["i"]), evs[0])
        out.append(dict(clause=v["clause"], features=dict(origin=j["origin"], rets=ev.get("rets")), case=j, events=evs))
    distinct = {json.dumps([j["plat"], j["b"], j["t"], j.get("muts")], sort_keys=True) for j in jobs if j["b"] != j["t"]}
    cov = dict(
        states=sum(m.get("states", 0) for m in mcs) + sum(g["states"] for g in gens),
        transitions=sum(m.get("states", 0) for m in mcs), distinct_states=sum(m.get("distinct", 0) for m in mcs),
        traces_validated_against_impl=len(jobs), evaluations=n_events, distinct_nontrivial=len(distinct),
        positive_answers=reported,
        rule="one trace = one ordered pair (bottom, top) of live Ace objects asked bottom.shadow_of(top, skip) for skip in "
             "{none, [addrgroup], [nc_wildcard], both, both reversed}, then (for grouped addresses) re-asked after "
             "in-place edits of the group's member list; pairs: the related / nearly related pairs of MC_AceSem's "
             "universe (both sides) concretised through address windows, port maps (1..3 -> real ports incl. 1 and "
             "65535) and spellings on both platforms, plus seeded random full-size pairs where the bottom is derived "
             "from the top by narrowing / widening one field (protocol incl. unnamed numbers, wildcard bits, port "
             "expression incl. empty ones and operand 0, flag subsets); entries built again (copy / data / line re-assigned) or "
             "with a port expression cleared between queries; crossed pairs (both addresses of the bottom are groups); groups "
             "of neighbouring blocks; same group name with other members; pairs taken from acls() on configurations with "
             "nested groups; non-trivial = bottom text differs from top; distinct = "
             "distinct (platform, texts, members, edits)",
        samples=[dict(job=j_, events=e_) for j_, e_ in samples],
        model_checking=mcs, generation=gens, trace_validation=vstats, exhaustive=False,
        checker_cmd="tlc MC_AceSem / MC_AceSem_dst (L_Sym, L_LibSound, L_Mono, L_LibExact, L_Nothing); tlc Trace_Shadow",
    )
    return dict(verdicts=out, coverage=cov, level="model_checking", assumptions=[
        "TCP flag keywords after the ports are read as Cisco's legacy any-of match; log keywords never affect matching",
        "an entry whose port expression denotes no port matches nothing and is covered by any entry of the same action"])


def replay_shadow(path):
    with open(path) as f:
        r = json.load(f)
    core._init_worker(core.REPO)
    evs = exec_any(r["case"])
    verdicts, _ = core.validate("Trace_Shadow", evs, nchunks=1)
    for v in verdicts:
        print("REPLAY verdict:", v)
    print("REPLAY events:", json.dumps([{k: x[k] for k in ("i", "exc", "rets")} for x in evs]), json.dumps(r["case"])[:1500])
    return 1 if verdicts else 0
