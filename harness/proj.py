"""Projection of library objects onto what the public API exposes (typed, no interpretation)."""
from __future__ import annotations

import json

from harness import lex

ZW = dict(base=lex.Z32, mask=lex.Z32)


def nc_count_text(wildcard_text: str) -> int:
    m = lex.wild_of_text(wildcard_text)["mask"]
    while m and m[-1] == 1:
        m = m[:-1]
    return sum(m)


def addr(a):
    if a.type == "addrgroup":
        return dict(k="group", w=ZW, name=a.addrgroup, mem=[lex.lex(x.line) for x in a.items])
    return dict(k="wild", w=lex.wild_of_text(a.wildcard), name="", mem=[])


def nets(a):
    if a.type == "addrgroup" or nc_count_text(a.wildcard) > 6:
        return []
    return [lex.pfx_of_net(n) for n in a.ipnets()]


def port(p):
    return dict(op=p.operator, items=list(p.items), ports=lex.runs(p.ports))


def ace(x):
    return dict(act=x.action, proto=x.protocol.number, src=addr(x.srcaddr), dst=addr(x.dstaddr),
                srcnets=nets(x.srcaddr), dstnets=nets(x.dstaddr), sp=port(x.srcport), dp=port(x.dstport),
                flags=list(x.option.flags), logs=list(x.option.logs), seq=lex.limbs(int(x.sequence)), line=lex.lex(x.line),
                typ=x.type)


def _strip(d):
    if isinstance(d, dict):
        # a block's own number is compared on its own (clause C16.copy-block-number-differs), not inside the digest
        drop = {"uuid", "sequence"} if ("items" in d and "group_by" in d) else {"uuid"}
        return {k: _strip(v) for k, v in d.items() if k not in drop}
    if isinstance(d, (list, tuple)):
        return [_strip(v) for v in d]
    return d


def digest(obj) -> str:
    """data() without identifiers, as a canonical string (compared for equality only)."""
    return json.dumps(_strip(obj.data()), sort_keys=True, default=str)
