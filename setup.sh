#!/bin/sh
# MANIFEST setup_cmd: offline; checks the tools and parses every specification module.
cd "$(dirname "$0")" || exit 2
set -e
command -v java >/dev/null
test -f /opt/veriftools/tla/tla2tools.jar
command -v apalache-mc >/dev/null     # C10: the limb lemma at the real base is checked symbolically
/venv/bin/python -c "import sys; sys.path.insert(0, '${VERIF_REPO:-/repo}'); import cisco_acl, netports"
mkdir -p evidence replays
fail=0
for f in spec/*.tla spec/mc/*.tla spec/trace/*.tla spec/apalache/*.tla; do
  out=$(cd spec && java -cp /opt/veriftools/tla/tla2tools.jar:/opt/veriftools/tla/CommunityModules-deps.jar \
        -DTLA-Library="$PWD:$PWD/mc:$PWD/trace" tla2sany.SANY "../$f" 2>&1) || true
  if echo "$out" | grep -q -E "^\*\*\* Errors|Fatal errors|Could not find module|Lexical error|\*\*\* Abort"; then
     echo "SANY failed on $f"; echo "$out" | tail -20; fail=1
  fi
done
/venv/bin/python -B harness/selfcheck_lex.py
[ $fail -eq 0 ] && echo "setup ok"
exit $fail
