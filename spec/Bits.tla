------------------------------- MODULE Bits -------------------------------
(***************************************************************************)
(* Bit vectors of any width: a sequence of 0/1 whose index 1 is the MOST   *)
(* significant bit (the order of a dotted quad and of the JSON arrays the  *)
(* harness writes).  Everything is uniform in the width, so the same       *)
(* operators serve the model-checking instance (W = 3, 4) and the trace    *)
(* instance (W = 32).                                                      *)
(***************************************************************************)
EXTENDS Naturals, Sequences, FiniteSets

Bit == {0, 1}
BitVecs(n) == [1..n -> Bit]

Zeros(n) == [i \in 1..n |-> 0]
Ones(n)  == [i \in 1..n |-> 1]

BAnd(a, b) == [i \in 1..Len(a) |-> IF a[i] = 1 /\ b[i] = 1 THEN 1 ELSE 0]
BOr(a, b)  == [i \in 1..Len(a) |-> IF a[i] = 1 \/ b[i] = 1 THEN 1 ELSE 0]
BXor(a, b) == [i \in 1..Len(a) |-> IF a[i] # b[i] THEN 1 ELSE 0]
BNot(a)    == [i \in 1..Len(a) |-> 1 - a[i]]

IsBitVec(a, n) == /\ DOMAIN a = 1..n
                  /\ \A i \in 1..n : a[i] \in Bit

(* Number of consecutive 1 bits at the least significant end.              *)
LowRun(m) ==
  LET n == Len(m)
  IN  CHOOSE k \in 0..n : /\ \A i \in (n - k + 1)..n : m[i] = 1
                          /\ (k < n => m[n - k] = 0)

(* Number of consecutive 1 bits at the most significant end.               *)
HighRun(m) ==
  LET n == Len(m)
  IN  CHOOSE k \in 0..n : /\ \A i \in 1..k : m[i] = 1
                          /\ (k < n => m[k + 1] = 0)

(* 1 bits of a wildcard mask that do not belong to the low run: the        *)
(* "non-contiguous wildcard bits".                                         *)
NcIdx(m) == {i \in 1..(Len(m) - LowRun(m)) : m[i] = 1}

IsContig(m) == NcIdx(m) = {}

(* A net mask (ones then zeros) as opposed to a wildcard mask.             *)
IsNetMask(m) == \A i \in (HighRun(m) + 1)..Len(m) : m[i] = 0

PopCount(m) == Cardinality({i \in 1..Len(m) : m[i] = 1})

(* Numeric value; only for small widths (TLC integers are 32 bit).         *)
RECURSIVE ToNatAcc(_, _, _)
ToNatAcc(a, i, acc) == IF i > Len(a) THEN acc ELSE ToNatAcc(a, i + 1, 2 * acc + a[i])
ToNat(a) == ToNatAcc(a, 1, 0)

(* Lexicographic order = numeric order for equal widths.                   *)
RECURSIVE LexLtFrom(_, _, _)
LexLtFrom(a, b, i) == IF i > Len(a) THEN FALSE
                      ELSE IF a[i] # b[i] THEN a[i] < b[i]
                      ELSE LexLtFrom(a, b, i + 1)
LexLt(a, b) == LexLtFrom(a, b, 1)

Pow2(n) == 2 ^ n
=============================================================================
