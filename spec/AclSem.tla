------------------------------- MODULE AclSem -------------------------------
(***************************************************************************)
(* The ACL as an ordered rule list and the public operations on it, as     *)
(* functions on an abstract state (used by the model-checking machine      *)
(* MC_Acl and by the trace specification Trace_Acl alike).                 *)
(*                                                                         *)
(* Item (uniform shape):                                                   *)
(*   [kind, id, note, seq, f, text, items]                                 *)
(*   kind  "ace" | "remark" | "block"                                      *)
(*   rtext the remark text as one string; heads: the grouping prefixes     *)
(*         this remark's text starts with (TLC has no characters, so the   *)
(*         harness records str.startswith for the prefixes in play)        *)
(*   id    identifier of the object (uuid); note: its annotation           *)
(*   seq   sequence number (limb pair)                                     *)
(*   f     for an ace: [act, proto, src, dst, sp, dp, flags, logs] with    *)
(*         src/dst = [k, w, name, mem] (mem = member wildcards of a group) *)
(*   text  words of a remark; <<name>> of a block                          *)
(*   items leaves of a block                                               *)
(***************************************************************************)
EXTENDS AceSem

CONSTANT FreshId      \* marks an object created by the operation (a value of the same shape as real ids)

NoF == [act |-> "", proto |-> 0, src |-> [k |-> "wild", w |-> ZeroW, name |-> "", mem |-> <<>>],
        dst |-> [k |-> "wild", w |-> ZeroW, name |-> "", mem |-> <<>>], sp |-> NoPort, dp |-> NoPort,
        flags |-> <<>>, logs |-> <<>>]

IsAce(x) == x.kind = "ace"
IsRemark(x) == x.kind = "remark"
IsBlock(x) == x.kind = "block"

RECURSIVE Flatten(_)
Flatten(items) == IF items = <<>> THEN <<>>
                  ELSE (IF IsBlock(Head(items)) THEN Head(items).items ELSE <<Head(items)>>) \o Flatten(Tail(items))
Aces(items) == SelectSeq(Flatten(items), IsAce)

(* the entry AceSem works on *)
Ent(x) == Entry(x.f, x.f.src.mem, x.f.dst.mem)
RECURSIVE Ents(_)
Ents(leaves) == IF leaves = <<>> THEN <<>>
                ELSE (IF IsAce(Head(leaves)) THEN <<Ent(Head(leaves))>> ELSE <<>>) \o Ents(Tail(leaves))
DecisionOf(items, pkt) == Decision(Ents(Flatten(items)), pkt)

---------------------------------------------------------------------------
(* C19: splitting multi-port entries                                       *)
SplitSide(pe) == IF pe.op \in {"eq", "neq"} THEN [k \in 1..Len(pe.items) |-> [pe EXCEPT !.items = <<pe.items[k]>>]]
                 ELSE <<pe>>
SplitF(f) == LET ss == SplitSide(f.sp)  dd == SplitSide(f.dp)  nd == Len(dd)
             IN  [i \in 1..(Len(ss) * nd) |-> [f EXCEPT !.sp = ss[((i - 1) \div nd) + 1], !.dp = dd[((i - 1) % nd) + 1]]]
NeedsSplit(x) == IsAce(x) /\ Len(SplitF(x.f)) > 1

(* the union of the parts is the original (true for eq; false for a multi-port neq, whose parts
   together match every port) *)
SplitKeepsMeaning(f) ==
  /\ f.sp.op = "neq" => Len(f.sp.items) <= 1
  /\ f.dp.op = "neq" => Len(f.dp.items) <= 1

SplitLeaf(x) == IF NeedsSplit(x)
                THEN [i \in 1..Len(SplitF(x.f)) |-> [x EXCEPT !.f = SplitF(x.f)[i], !.id = FreshId]]
                ELSE <<x>>
RECURSIVE SplitLeaves(_)
SplitLeaves(ls) == IF ls = <<>> THEN <<>> ELSE SplitLeaf(Head(ls)) \o SplitLeaves(Tail(ls))
RECURSIVE UngroupPortsItems(_)
UngroupPortsItems(items) ==
  IF items = <<>> THEN <<>>
  ELSE LET h == Head(items) IN
       (IF IsBlock(h) THEN <<[h EXCEPT !.items = SplitLeaves(h.items)]>> ELSE SplitLeaf(h)) \o UngroupPortsItems(Tail(items))

(* any entry needs a split that changes its meaning (multi-port neq)?       *)
UnsafeSplitIn(items) == \E k \in 1..Len(Flatten(items)) : NeedsSplit(Flatten(items)[k]) /\ ~SplitKeepsMeaning(Flatten(items)[k].f)

---------------------------------------------------------------------------
(* acl.type = "standard": an extended entry keeps action and source only   *)
(* (protocol ip, no ports / flags / log, destination any); refused when a  *)
(* source names an address group (a standard entry cannot) - and a refused *)
(* change leaves the whole list as it was.                                  *)
ToStandardLeaf(x) ==
  IF IsAce(x) THEN [x EXCEPT !.f = [x.f EXCEPT !.proto = 0, !.sp = NoPort, !.dp = NoPort, !.flags = <<>>, !.logs = <<>>,
                                           !.dst = [k |-> "wild", w |-> AnyW, name |-> "", mem |-> <<>>]]] ELSE x
MapLeaves(items, F(_)) ==
  [k \in 1..Len(items) |-> IF IsBlock(items[k]) THEN [items[k] EXCEPT !.items = [j \in 1..Len(items[k].items) |-> F(items[k].items[j])]]
                           ELSE F(items[k])]
ToStandardItems(items) == MapLeaves(items, ToStandardLeaf)
StandardRefused(items) == \E k \in 1..Len(Flatten(items)) : IsAce(Flatten(items)[k]) /\ Flatten(items)[k].f.src.k = "group"

---------------------------------------------------------------------------
(* C15: grouping by remark prefix                                          *)
IsHeading(x, pre) == IsRemark(x) /\ \E k \in 1..Len(x.heads) : x.heads[k] = pre

(* buckets: sequence of [name (words), items]; the bucket <<>> collects what precedes the first heading *)
RECURSIVE BucketIdx(_, _, _)
BucketIdx(bs, name, k) == IF k > Len(bs) THEN 0 ELSE IF bs[k].name = name THEN k ELSE BucketIdx(bs, name, k + 1)
RECURSIVE Bucketize(_, _, _, _)
Bucketize(ls, pre, bs, cur) ==
  IF ls = <<>> THEN bs
  ELSE LET x == Head(ls) IN
       IF IsHeading(x, pre)
       THEN LET j == BucketIdx(bs, x.rtext, 1) IN
            IF j = 0 THEN Bucketize(Tail(ls), pre, Append(bs, [name |-> x.rtext, items |-> <<x>>]), Len(bs) + 1)
            ELSE Bucketize(Tail(ls), pre, bs, j)                          \* duplicate heading: merged, the remark is dropped
       ELSE Bucketize(Tail(ls), pre, [bs EXCEPT ![cur].items = Append(@, x)], cur)
GroupItems(items, pre) ==
  LET bs == Bucketize(Flatten(items), pre, <<[name |-> "", items |-> <<>>]>>, 1)
      ne == SelectSeq(bs, LAMBDA b : b.items # <<>>)
  IN  [k \in 1..Len(ne) |-> [kind |-> "block", id |-> FreshId, note |-> "", seq |-> <<0, 0>>, f |-> NoF,
                             text |-> <<>>, rtext |-> ne[k].name, heads |-> <<>>, items |-> ne[k].items]]
HeadingsDistinct(items, pre) ==
  LET hs == SelectSeq(Flatten(items), LAMBDA x : IsHeading(x, pre))
  IN  \A i \in 1..Len(hs) : \A j \in 1..Len(hs) : i # j => hs[i].rtext # hs[j].rtext

(* TCAM estimate *)
AddrCount(a) == IF a.k = "group" /\ Len(a.mem) > 0 THEN Len(a.mem) ELSE 1
RECURSIVE TcamLeaves(_)
TcamLeaves(ls) == IF ls = <<>> THEN 0
                  ELSE (IF IsAce(Head(ls)) THEN AddrCount(Head(ls).f.src) * AddrCount(Head(ls).f.dst) ELSE 0) + TcamLeaves(Tail(ls))
Tcam(items) == 1 + TcamLeaves(Flatten(items))

---------------------------------------------------------------------------
(* C04 / C11: the shading report and the removal of shadowed entries       *)
(* positions are indices into Aces(items)                                  *)
FirstTop(as, j, skip) ==
  LET c == {i \in 1..(j - 1) : ShadowLib(Ent(as[j]), Ent(as[i]), skip)}
  IN  IF c = {} THEN 0 ELSE CHOOSE i \in c : \A k \in c : i <= k
ShadowedIdx(as, skip) == {j \in 1..Len(as) : FirstTop(as, j, skip) # 0}

(* removal of exactly the shadowed entries, everything else in place *)
RECURSIVE RemoveAt(_, _, _)
RemoveAt(ls, dead, k) ==          \* ls: leaves; dead: set of ace positions; k: ace counter so far
  IF ls = <<>> THEN <<>>
  ELSE IF IsAce(Head(ls))
       THEN (IF (k + 1) \in dead THEN <<>> ELSE <<Head(ls)>>) \o RemoveAt(Tail(ls), dead, k + 1)
       ELSE <<Head(ls)>> \o RemoveAt(Tail(ls), dead, k)
DeleteShadowLeaves(items, skip) == RemoveAt(Flatten(items), ShadowedIdx(Aces(items), skip), 0)

(* a subsequence test on ids *)
RECURSIVE IsSubseqById(_, _)
IsSubseqById(a, b) == IF a = <<>> THEN TRUE
                      ELSE IF b = <<>> THEN FALSE
                      ELSE IF Head(a).id = Head(b).id THEN IsSubseqById(Tail(a), Tail(b)) ELSE IsSubseqById(a, Tail(b))
=============================================================================
