------------------------------- MODULE Names -------------------------------
(***************************************************************************)
(* Cisco's keyword tables for TCP / UDP ports and IP protocols, per        *)
(* platform (asa, ios, nxos) and - for IOS - software train (15 vs 16),    *)
(* transcribed from the CLI help of the devices named in the comments      *)
(* ("permit tcp any any eq ?", "permit ?").  A table is a set of           *)
(* <<name, number>> pairs.  Names are pure spelling of their standard      *)
(* number (property C09).                                                  *)
(***************************************************************************)
EXTENDS Naturals, Sequences, FiniteSets

(* IOS XE 16.x / NX-OS 9.x common part *)
TcpBase ==
  {<<"echo", 7>>, <<"discard", 9>>, <<"daytime", 13>>, <<"chargen", 19>>, <<"ftp-data", 20>>, <<"ftp", 21>>,
   <<"telnet", 23>>, <<"smtp", 25>>, <<"time", 37>>, <<"whois", 43>>, <<"tacacs", 49>>, <<"domain", 53>>,
   <<"gopher", 70>>, <<"finger", 79>>, <<"www", 80>>, <<"hostname", 101>>, <<"pop2", 109>>, <<"pop3", 110>>,
   <<"sunrpc", 111>>, <<"ident", 113>>, <<"nntp", 119>>, <<"bgp", 179>>, <<"irc", 194>>, <<"pim-auto-rp", 496>>,
   <<"exec", 512>>, <<"login", 513>>, <<"cmd", 514>>, <<"lpd", 515>>, <<"talk", 517>>, <<"uucp", 540>>,
   <<"klogin", 543>>, <<"kshell", 544>>}
TcpIos15 == TcpBase \cup {<<"syslog", 514>>}
TcpIos16 == TcpBase \cup {<<"msrpc", 135>>, <<"syslog", 514>>, <<"onep-plain", 15001>>, <<"onep-tls", 15002>>}
TcpNxos  == TcpBase \cup {<<"drip", 3949>>}
(* ASA 9.x *)
TcpAsa ==
  {<<"echo", 7>>, <<"discard", 9>>, <<"daytime", 13>>, <<"chargen", 19>>, <<"ftp-data", 20>>, <<"ftp", 21>>,
   <<"ssh", 22>>, <<"telnet", 23>>, <<"smtp", 25>>, <<"whois", 43>>, <<"tacacs", 49>>, <<"domain", 53>>,
   <<"gopher", 70>>, <<"finger", 79>>, <<"www", 80>>, <<"hostname", 101>>, <<"pop2", 109>>, <<"pop3", 110>>,
   <<"sunrpc", 111>>, <<"ident", 113>>, <<"nntp", 119>>, <<"netbios-ssn", 139>>, <<"imap4", 143>>, <<"bgp", 179>>,
   <<"irc", 194>>, <<"ldap", 389>>, <<"https", 443>>, <<"pim-auto-rp", 496>>, <<"exec", 512>>, <<"login", 513>>,
   <<"rsh", 514>>, <<"lpd", 515>>, <<"talk", 517>>, <<"uucp", 540>>, <<"klogin", 543>>, <<"kshell", 544>>,
   <<"rtsp", 554>>, <<"ldaps", 636>>, <<"kerberos", 750>>, <<"lotusnotes", 1352>>, <<"citrix-ica", 1494>>,
   <<"sqlnet", 1521>>, <<"h323", 1720>>, <<"pptp", 1723>>, <<"nfs", 2049>>, <<"ctiqbe", 2748>>, <<"cifs", 3020>>,
   <<"sip", 5060>>, <<"aol", 5190>>, <<"pcanywhere-data", 5631>>}

UdpBase ==
  {<<"echo", 7>>, <<"discard", 9>>, <<"time", 37>>, <<"nameserver", 42>>, <<"tacacs", 49>>, <<"domain", 53>>,
   <<"bootps", 67>>, <<"bootpc", 68>>, <<"tftp", 69>>, <<"sunrpc", 111>>, <<"ntp", 123>>, <<"netbios-ns", 137>>,
   <<"netbios-dgm", 138>>, <<"netbios-ss", 139>>, <<"snmp", 161>>, <<"snmptrap", 162>>, <<"xdmcp", 177>>,
   <<"dnsix", 195>>, <<"mobile-ip", 434>>, <<"pim-auto-rp", 496>>, <<"isakmp", 500>>, <<"biff", 512>>, <<"who", 513>>,
   <<"syslog", 514>>, <<"talk", 517>>, <<"rip", 520>>, <<"non500-isakmp", 4500>>}
UdpIos15 == UdpBase
UdpIos16 == UdpBase \cup {<<"ripv6", 521>>}
UdpNxos  == UdpBase
UdpAsa ==
  {<<"echo", 7>>, <<"discard", 9>>, <<"time", 37>>, <<"nameserver", 42>>, <<"tacacs", 49>>, <<"domain", 53>>,
   <<"bootps", 67>>, <<"bootpc", 68>>, <<"tftp", 69>>, <<"www", 80>>, <<"sunrpc", 111>>, <<"ntp", 123>>,
   <<"netbios-ns", 137>>, <<"netbios-dgm", 138>>, <<"snmp", 161>>, <<"snmptrap", 162>>, <<"xdmcp", 177>>,
   <<"dnsix", 195>>, <<"mobile-ip", 434>>, <<"pim-auto-rp", 496>>, <<"isakmp", 500>>, <<"biff", 512>>, <<"who", 513>>,
   <<"syslog", 514>>, <<"talk", 517>>, <<"rip", 520>>, <<"kerberos", 750>>, <<"radius", 1645>>, <<"radius-acct", 1646>>,
   <<"nfs", 2049>>, <<"cifs", 3020>>, <<"vxlan", 4789>>, <<"sip", 5060>>, <<"secureid-udp", 5510>>,
   <<"pcanywhere-status", 5632>>}

ProtoIos ==
  {<<"ip", 0>>, <<"icmp", 1>>, <<"igmp", 2>>, <<"ipip", 4>>, <<"tcp", 6>>, <<"egp", 8>>, <<"udp", 17>>, <<"ipv6", 41>>,
   <<"gre", 47>>, <<"esp", 50>>, <<"ah", 51>>, <<"ahp", 51>>, <<"eigrp", 88>>, <<"ospf", 89>>, <<"nos", 94>>,
   <<"pim", 103>>, <<"pcp", 108>>}
ProtoNxos ==
  {<<"ip", 0>>, <<"icmp", 1>>, <<"igmp", 2>>, <<"tcp", 6>>, <<"udp", 17>>, <<"gre", 47>>, <<"esp", 50>>, <<"ahp", 51>>,
   <<"eigrp", 88>>, <<"ospf", 89>>, <<"nos", 94>>, <<"pim", 103>>, <<"pcp", 108>>}
ProtoAsa ==
  {<<"ip", 0>>, <<"icmp", 1>>, <<"igmp", 2>>, <<"ipinip", 4>>, <<"tcp", 6>>, <<"igrp", 9>>, <<"udp", 17>>, <<"gre", 47>>,
   <<"esp", 50>>, <<"ah", 51>>, <<"icmp6", 58>>, <<"eigrp", 88>>, <<"ospf", 89>>, <<"nos", 94>>, <<"pim", 103>>,
   <<"pcp", 108>>, <<"snp", 109>>, <<"sctp", 132>>}

Platforms == {"asa", "ios", "nxos"}

(* which table a (platform, major version, protocol) selects; any major other than 15 is the 16.x table on IOS *)
PortTable(plat, vmajor, proto) ==
  CASE proto = "tcp" /\ plat = "asa"  -> TcpAsa
    [] proto = "tcp" /\ plat = "ios"  -> IF vmajor = 15 THEN TcpIos15 ELSE TcpIos16
    [] proto = "tcp" /\ plat = "nxos" -> TcpNxos
    [] proto = "udp" /\ plat = "asa"  -> UdpAsa
    [] proto = "udp" /\ plat = "ios"  -> IF vmajor = 15 THEN UdpIos15 ELSE UdpIos16
    [] proto = "udp" /\ plat = "nxos" -> UdpNxos
    [] OTHER -> {}
ProtoTable(plat) == CASE plat = "asa" -> ProtoAsa [] plat = "nxos" -> ProtoNxos [] OTHER -> ProtoIos
ProtoAny == ProtoAsa \cup ProtoIos \cup ProtoNxos        \* the reader accepts any platform's protocol keyword

AllPortTables == {TcpAsa, TcpIos15, TcpIos16, TcpNxos, UdpAsa, UdpIos15, UdpIos16, UdpNxos}
AllPortNames == {p[1] : p \in UNION AllPortTables}
AllProtoNames == {p[1] : p \in ProtoAny}

NamesOf(tbl) == {p[1] : p \in tbl}
NumsOf(tbl) == {p[2] : p \in tbl}
Has(tbl, name) == \E p \in tbl : p[1] = name
NumOf(tbl, name) == (CHOOSE p \in tbl : p[1] = name)[2]
NamesFor(tbl, n) == {p[1] : p \in {q \in tbl : q[2] = n}}

(* keywords of the ACE grammar that a port / protocol name must never collide with *)
Operators == {"eq", "gt", "lt", "neq", "range"}
AddrKeywords == {"any", "host", "object-group", "addrgroup"}
LogKeywords == {"log", "log-input"}
Actions == {"permit", "deny", "remark"}
TcpFlagWords == {"ack", "fin", "psh", "rst", "syn", "urg", "established"}
Reserved == Operators \cup AddrKeywords \cup LogKeywords \cup Actions

---------------------------------------------------------------------------
(* Closure facts about the tables themselves (checked by MC_Names)         *)

(* a name means one number, whatever the platform or version (per protocol family) *)
Functional(tbl) == \A p \in tbl : \A q \in tbl : p[1] = q[1] => p[2] = q[2]
TcpAll == TcpAsa \cup TcpIos15 \cup TcpIos16 \cup TcpNxos
UdpAll == UdpAsa \cup UdpIos15 \cup UdpIos16 \cup UdpNxos

(* rendering a number with ANY name the table gives it and reading it back yields the number *)
RoundTrip(tbl) == \A p \in tbl : \A nm \in NamesFor(tbl, p[2]) : NumOf(tbl, nm) = p[2]

(* a rendered token for number n under a table: the number itself or one of its names *)
RenderOK(tbl, n, tokIsNum, tokNum, tokWord) ==
  IF tokIsNum THEN tokNum = n ELSE Has(tbl, tokWord) /\ NumOf(tbl, tokWord) = n
=============================================================================
