------------------------------ MODULE PortSem ------------------------------
(***************************************************************************)
(* Meaning of TCP/UDP port expressions (property C08).                     *)
(*                                                                         *)
(* A port expression is an operator with operands; it denotes a subset of  *)
(* 1..PMax exactly as Cisco defines it: eq = the listed ports, neq = all   *)
(* others, lt / gt strict, range inclusive whatever the operand order.     *)
(*   PDen  enumerative denotation (a set; small PMax only)                 *)
(*   PIv   symbolic denotation: strictly ascending, non-adjacent intervals *)
(*         <<lo, hi>> (canonical form; usable at PMax = 65535)             *)
(* The compact range string ("1,3-5") is exactly the canonical interval    *)
(* list, so Encode/Decode are the identity on canonical lists and          *)
(* Canon() is what "decodes to the same set" means for any other list.     *)
(***************************************************************************)
EXTENDS Naturals, Sequences, FiniteSets, TLC

CONSTANT PMax          \* 65535 for real; 6 when model checking

Ops == {"eq", "neq", "lt", "gt", "range"}
Port == 1..PMax

Min2(a, b) == IF a <= b THEN a ELSE b
Max2(a, b) == IF a >= b THEN a ELSE b
SeqSet(s) == {s[i] : i \in 1..Len(s)}
SortNat(s) == SortSeq(s, LAMBDA a, b : a < b)

(* operand arity accepted for an operator (eq / neq: at least one) *)
ArityOK(op, items) ==
  CASE op \in {"lt", "gt"} -> Len(items) = 1
    [] op = "range"       -> Len(items) = 2
    [] op \in {"eq", "neq"} -> Len(items) >= 1
    [] OTHER -> FALSE

---------------------------------------------------------------------------
(* enumerative denotation *)
PDen(op, items) ==
  CASE op = "eq"    -> SeqSet(items) \cap Port
    [] op = "neq"   -> Port \ SeqSet(items)
    [] op = "lt"    -> {p \in Port : p < items[1]}
    [] op = "gt"    -> {p \in Port : p > items[1]}
    [] op = "range" -> {p \in Port : Min2(items[1], items[2]) <= p /\ p <= Max2(items[1], items[2])}

---------------------------------------------------------------------------
(* interval lists *)
IsIv(iv) == iv[1] <= iv[2]
IsCanon(ivs) == /\ \A k \in 1..Len(ivs) : IsIv(ivs[k]) /\ ivs[k][1] >= 1 /\ ivs[k][2] <= PMax
                /\ \A k \in 1..(Len(ivs) - 1) : ivs[k][2] + 1 < ivs[k + 1][1]

Expand(ivs) == UNION {ivs[k][1]..ivs[k][2] : k \in 1..Len(ivs)}      \* small PMax only

(* canonical form of any list of intervals (sorted, merged, clipped) *)
RECURSIVE MergeSorted(_, _)
MergeSorted(s, acc) ==
  IF s = <<>> THEN acc
  ELSE LET h == Head(s) IN
       IF acc # <<>> /\ h[1] <= acc[Len(acc)][2] + 1
       THEN MergeSorted(Tail(s), [acc EXCEPT ![Len(acc)] = <<acc[Len(acc)][1], Max2(acc[Len(acc)][2], h[2])>>])
       ELSE MergeSorted(Tail(s), Append(acc, h))
Clip(ivs) == SelectSeq([k \in 1..Len(ivs) |-> <<Max2(ivs[k][1], 1), Min2(ivs[k][2], PMax)>>], IsIv)
Canon(ivs) == MergeSorted(SortSeq(Clip(ivs), LAMBDA a, b : a[1] < b[1] \/ (a[1] = b[1] /\ a[2] < b[2])), <<>>)

(* complement of a canonical list within 1..PMax *)
RECURSIVE ComplFrom(_, _, _)
ComplFrom(ivs, k, lo) ==
  IF k > Len(ivs)
  THEN IF lo <= PMax THEN <<<<lo, PMax>>>> ELSE <<>>
  ELSE (IF lo < ivs[k][1] THEN <<<<lo, ivs[k][1] - 1>>>> ELSE <<>>) \o ComplFrom(ivs, k + 1, ivs[k][2] + 1)
Compl(ivs) == ComplFrom(ivs, 1, 1)

Points(items) == [k \in 1..Len(items) |-> <<items[k], items[k]>>]

(* symbolic denotation *)
PIv(op, items) ==
  CASE op = "eq"    -> Canon(Points(items))
    [] op = "neq"   -> Compl(Canon(Points(items)))
    [] op = "lt"    -> Canon(<<<<1, items[1] - 1>>>>)
    [] op = "gt"    -> Canon(<<<<items[1] + 1, PMax>>>>)
    [] op = "range" -> Canon(<<<<Min2(items[1], items[2]), Max2(items[1], items[2])>>>>)

(* containment / equality of denotations on canonical lists *)
IvSubset(a, b) == \A i \in 1..Len(a) : \E j \in 1..Len(b) : b[j][1] <= a[i][1] /\ a[i][2] <= b[j][2]
IvEmpty(a) == a = <<>>
IvCount(a) == LET RECURSIVE S(_) S(k) == IF k = 0 THEN 0 ELSE S(k - 1) + a[k][2] - a[k][1] + 1 IN S(Len(a))

(* the compact range string is the canonical list itself *)
Encode(ivs) == Canon(ivs)
Decode(str) == Canon(str)
=============================================================================
