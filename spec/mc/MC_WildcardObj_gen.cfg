CONSTANT W = 3
CONSTANT Limits = {1, 2}
CONSTANT Deviate = FALSE
CONSTANT Ws <- GenWsQuick
CONSTANT MaxDepth = 4
CONSTANT Gen = TRUE
SPECIFICATION Spec
CONSTRAINT Bound
INVARIANT GenLeaf
CHECK_DEADLOCK FALSE
