------------------------------ MODULE MC_Lines ------------------------------
EXTENDS Lines, TLC, Json
CONSTANTS MaxLen, Gen
VARIABLE ks
Init == ks \in UNION {[1..n -> Kinds] : n \in 0..MaxLen}
Next == UNCHANGED ks
Spec == Init /\ [][Next]_ks
P_Accounted == Accounted(ks, BuildAcl(ks)) /\ Accounted(ks, BuildGroup(ks))
P_FailOnlyIfDocumented == (~BuildAcl(ks).ok <=> Count(ks, "fatal") > 0) /\ (~BuildGroup(ks).ok <=> Count(ks, "valid") = 0)
GenKs == Gen => PrintT(ToJson([ks |-> ks]))
=============================================================================
