CONSTANT W = 3
CONSTANT Gen = TRUE
CONSTANT Universe <- GenOperands
SPECIFICATION Spec
INVARIANT GenPair
CHECK_DEADLOCK FALSE
