CONSTANT MaxLen = 4
CONSTANT VocSize = 16
CONSTANT Gen = TRUE
SPECIFICATION Spec
INVARIANT TypeOK
INVARIANT GenSoup
CHECK_DEADLOCK FALSE
