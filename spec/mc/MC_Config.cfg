CONSTANT MaxSecs = 4
CONSTANT Gen = FALSE
SPECIFICATION Spec
INVARIANT P_Invariant
INVARIANT P_Once
INVARIANT P_Filter
CHECK_DEADLOCK FALSE
