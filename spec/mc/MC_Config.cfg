CONSTANT MaxSecs = 4
CONSTANT RefOf <- RefMC
CONSTANT Gen = FALSE
SPECIFICATION Spec
INVARIANT P_Invariant
INVARIANT P_Once
INVARIANT P_Filter
INVARIANT P_Flat
INVARIANT P_Plain
CHECK_DEADLOCK FALSE
