CONSTANT W = 3
CONSTANT PMax = 6
SPECIFICATION Spec
INVARIANT L_RoundTrip
INVARIANT L_NxosRejects
CHECK_DEADLOCK FALSE
