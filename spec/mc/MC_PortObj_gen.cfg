CONSTANT PMax = 6
CONSTANT MaxDepth = 3
CONSTANT Gen = TRUE
CONSTANT Tup <- GenTupQuick
SPECIFICATION Spec
CONSTRAINT Bound
INVARIANT GenLeaf
CHECK_DEADLOCK FALSE
