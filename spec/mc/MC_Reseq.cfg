CONSTANT B = 4
CONSTANT MaxSeq <- MaxSeqMC
CONSTANT MaxLeaves = 4
CONSTANT Gen = FALSE
SPECIFICATION Spec
INVARIANT P_Numbers
INVARIANT P_Clear
INVARIANT P_Return
INVARIANT P_Only
INVARIANT P_Range
INVARIANT P_Errors
INVARIANT L_Limb
CHECK_DEADLOCK FALSE
