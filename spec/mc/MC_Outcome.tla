----------------------------- MODULE MC_Outcome -----------------------------
(* Enumerates token soups: every sequence of <= MaxLen vocabulary indices. *)
(* (The vocabulary itself is text and lives in the harness; the model      *)
(* fixes which sequences are tried: all of them up to the bound.)          *)
EXTENDS Outcome, TLC, Json
CONSTANTS MaxLen, VocSize, Gen
VARIABLE soup
Init == soup \in UNION {[1..n -> 1..VocSize] : n \in 0..MaxLen}
Next == UNCHANGED soup
Spec == Init /\ [][Next]_soup
TypeOK == Len(soup) <= MaxLen
GenSoup == Gen => PrintT(ToJson([soup |-> soup]))
=============================================================================
