------------------------------ MODULE MC_Config ------------------------------
(* Extraction is insensitive to the position of unrelated sections and to  *)
(* the order of interface sections: all configurations of <= MaxSecs       *)
(* sections over a small alphabet, every swap / noise insertion.           *)
EXTENDS Config, TLC, Json
CONSTANTS MaxSecs, Gen
VARIABLES cfg, prev, last
vars == <<cfg, prev, last>>

S(kind, name, typ, body, binds) == [kind |-> kind, name |-> name, typ |-> typ, body |-> body, binds |-> binds]
Alphabet == {
  S("acl", "A", "extended", <<"l1", "l2">>, <<>>), S("acl", "B", "standard", <<"l3">>, <<>>),
  S("group", "G", "", <<"m1", "m2">>, <<>>), S("group", "G", "", <<"m3">>, <<>>),
  S("group", "G", "", <<"m1", "ref:H">>, <<>>), S("group", "H", "", <<"ref:G", "m4">>, <<>>), S("group", "H", "", <<"m5", "ref:X">>, <<>>),
  S("intf", "i1", "", <<>>, <<<<"A", "in">>, <<"B", "out">>>>), S("intf", "i2", "", <<>>, <<<<"A", "in">>, <<"A", "out">>>>),
  S("intf", "i3", "", <<>>, <<>>), S("noise", "n", "", <<"x">>, <<>>) }
Configs == {c \in UNION {[1..n -> Alphabet] : n \in 0..MaxSecs} : NamesDistinct(c)}

Init == cfg \in Configs /\ prev = cfg /\ last = "init"
Swap(i) == /\ i < Len(cfg) /\ last = "init"
           /\ ~(cfg[i].kind = "acl" /\ cfg[i + 1].kind = "acl")                      \* the relative order of ACLs is the result's order
           /\ ~(cfg[i].kind = "group" /\ cfg[i + 1].kind = "group")
           /\ cfg' = [cfg EXCEPT ![i] = cfg[i + 1], ![i + 1] = cfg[i]] /\ prev' = cfg /\ last' = "swap"
Noise(i) == /\ i <= Len(cfg) + 1 /\ last = "init" /\ Len(cfg) < MaxSecs + 1
            /\ cfg' = SubSeq(cfg, 1, i - 1) \o <<S("noise", "z", "", <<"y">>, <<>>)>> \o SubSeq(cfg, i, Len(cfg))
            /\ prev' = cfg /\ last' = "noise"
Next == \E i \in 1..(MaxSecs + 1) : Swap(i) \/ Noise(i)
Spec == Init /\ [][Next]_vars

RefMC(line) == CASE line = "ref:G" -> "G" [] line = "ref:H" -> "H" [] line = "ref:X" -> "X" [] OTHER -> ""
(* nested groups are always expanded into ordinary members, whatever the reference structure (loops, undefined names) *)
P_Flat == \A g \in {"G", "H", "X"} : \A k \in 1..Len(MembersFor(cfg, g)) : RefMC(MembersFor(cfg, g)[k]) = ""
(* a group that is defined once and references nothing yields its own lines *)
P_Plain == \A g \in {"G", "H"} : (Len(GroupSecs(cfg, g)) = 1 /\ \A k \in 1..Len(GroupSecs(cfg, g)[1].body) : RefMC(GroupSecs(cfg, g)[1].body[k]) = "")
                                  => MembersFor(cfg, g) = GroupSecs(cfg, g)[1].body
Filters == {{"*"}, {"A"}, {"B"}, {"A", "B"}, {"C"}, {}}
P_Invariant == last # "init" => \A f \in Filters : Extract(cfg, f) = Extract(prev, f) /\ \A g \in {"G", "H"} : MembersFor(cfg, g) = MembersFor(prev, g)
P_Once == \A f \in Filters : \A i \in 1..Len(Extract(cfg, f)) : \A j \in 1..Len(Extract(cfg, f)) : i # j => Extract(cfg, f)[i].name # Extract(cfg, f)[j].name
P_Filter == \A f \in Filters : \A i \in 1..Len(Extract(cfg, f)) : f = {"*"} \/ Extract(cfg, f)[i].name \in f
GenCfg == (Gen /\ last = "init") => PrintT(ToJson([cfg |-> cfg]))
=============================================================================
