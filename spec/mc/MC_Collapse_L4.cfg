CONSTANT W = 3
CONSTANT MaxLen = 4
CONSTANT Gen = FALSE
SPECIFICATION Spec
INVARIANT PostHolds
INVARIANT Conserve
INVARIANT Bounded
INVARIANT L_SameUnion
PROPERTY Terminates
CHECK_DEADLOCK FALSE
