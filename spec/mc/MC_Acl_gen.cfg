CONSTANT W = 2
CONSTANT PMax = 3
CONSTANT FreshId <- FreshMC
CONSTANT Gen = TRUE
CONSTANT MaxItems = 3
CONSTANT MaxDepth = 2
SPECIFICATION Spec
INVARIANT GenHist
CHECK_DEADLOCK FALSE
