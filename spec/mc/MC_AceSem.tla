----------------------------- MODULE MC_AceSem -----------------------------
(***************************************************************************)
(* Lemmas for C03 / C11 on a reduced product universe (W = 2, ports 1..3): *)
(* every ordered pair (bottom, top) of entries and every packet.           *)
(*   Side = "src": source address / source port vary, destination is any   *)
(*   Side = "dst": the mirror image                                        *)
(***************************************************************************)
EXTENDS AceSem, TLC, Json

CONSTANTS Side, Gen
VARIABLES b, t, ph
vars == <<b, t, ph>>

NW == {w \in Wild : IsNorm(w)}                               \* 9 address sets over 2 bits
AddrChoices == {WildSpec(w) : w \in {[base |-> <<0,0>>, mask |-> <<1,1>>], [base |-> <<1,0>>, mask |-> <<0,1>>],
                                     [base |-> <<1,0>>, mask |-> <<0,0>>], [base |-> <<0,1>>, mask |-> <<1,0>>],
                                     [base |-> <<1,1>>, mask |-> <<0,0>>]}}
               \cup {GroupSpec("G")}
MemChoices == {<<>>, <<[base |-> <<1,0>>, mask |-> <<0,0>>], [base |-> <<1,1>>, mask |-> <<0,0>>]>>,
               <<[base |-> <<0,0>>, mask |-> <<0,1>>], [base |-> <<1,0>>, mask |-> <<0,1>>]>>,
               <<[base |-> <<0,1>>, mask |-> <<1,0>>]>>}
PortChoices == {NoPort, [op |-> "eq", items |-> <<1>>], [op |-> "eq", items |-> <<1, 3>>], [op |-> "range", items |-> <<1, 2>>],
                [op |-> "neq", items |-> <<2>>], [op |-> "lt", items |-> <<1>>], [op |-> "gt", items |-> <<3>>],
                [op |-> "gt", items |-> <<1>>]}
FlagChoices == {<<>>, <<"ack">>, <<"ack", "syn">>, <<"syn">>}

Mk(act, proto, ad, pe, fl, mem) ==
  LET any == WildSpec(AnyW)
      a == [ok |-> TRUE, typ |-> "extended", seq |-> <<0, 0>>, act |-> act, proto |-> proto,
            src |-> IF Side = "src" THEN ad ELSE any, dst |-> IF Side = "src" THEN any ELSE ad,
            sp |-> IF Side = "src" THEN pe ELSE NoPort, dp |-> IF Side = "src" THEN NoPort ELSE pe,
            flags |-> fl, logs |-> <<>>, sk |-> NoSpell]
  IN Entry(a, IF Side = "src" THEN mem ELSE <<>>, IF Side = "src" THEN <<>> ELSE mem)

Universe ==
  {Mk(act, 6, ad, pe, fl, mem) : act \in {"permit"}, ad \in AddrChoices, pe \in PortChoices, fl \in FlagChoices, mem \in {<<>>}}
  \cup {Mk("permit", 6, GroupSpec("G"), pe, <<>>, mem) : pe \in {NoPort, [op |-> "eq", items |-> <<1>>]}, mem \in MemChoices}
  \cup {Mk(act, 17, ad, pe, <<>>, <<>>) : act \in {"permit", "deny"}, ad \in AddrChoices \ {GroupSpec("G")}, pe \in PortChoices}
  \cup {Mk(act, pr, ad, NoPort, <<>>, <<>>) : act \in {"permit", "deny"}, pr \in {0, 1}, ad \in AddrChoices \ {GroupSpec("G")}}
Fix(e) == IF e.a.src.k = "group" /\ e.smem = <<>> /\ Side = "src" THEN e ELSE e

Packets == {p \in Packet({1, 6, 17}, SUBSET {"ack", "syn"}) :
              /\ (p.proto # 6 => p.fl = {})
              /\ (p.proto = 1 => p.sp = 0 /\ p.dp = 0)
              /\ (Side = "src" => p.da = <<0,0>> /\ p.dp = 0)
              /\ (Side = "dst" => p.sa = <<0,0>> /\ p.sp = 0)}
PktSet(e) == {p \in Packets : Matches(e, p)}
ShadowExact(x, y) == x.a.act = y.a.act /\ PktSet(x) \subseteq PktSet(y)

Z == CHOOSE e \in Universe : TRUE
Init == b \in Universe /\ t = Z /\ ph = 0
Next == ph = 0 /\ ph' = 1 /\ b' = b /\ t' \in Universe
Spec == Init /\ [][Next]_vars

Skips == SUBSET {"addrgroup", "nc_wildcard"}
(* symbolic = enumerative *)
L_Sym == ShadowSym(b, t) <=> ShadowExact(b, t)
(* the documented relation is sound ... *)
L_LibSound == \A sk \in Skips : ShadowLib(b, t, sk) => ShadowExact(b, t)
(* ... monotone in the skip options ... *)
L_Mono == \A s1 \in Skips : \A s2 \in Skips : (s1 \subseteq s2 /\ ShadowLib(b, t, s2)) => ShadowLib(b, t, s1)
(* ... and exact on group-free entries whose port expressions denote at least one port *)
NonEmptyPorts(e) == ~PortEmpty(e.a.sp) /\ ~PortEmpty(e.a.dp)
L_LibExact == (~HasGroup(b) /\ ~HasGroup(t) /\ NonEmptyPorts(b) /\ NonEmptyPorts(t)) =>
                 \A sk \in Skips : ShadowLib(b, t, sk) <=> (ShadowExact(b, t) /\ ~SkipHit(b, t, sk))
(* an entry that matches nothing is recognised as such *)
L_Nothing == MatchesNothing(b) <=> PktSet(b) = {}
Slim(e) == [act |-> e.a.act, proto |-> e.a.proto, src |-> e.a.src, dst |-> e.a.dst, sp |-> e.a.sp, dp |-> e.a.dp,
            flags |-> e.a.flags, smem |-> e.smem, dmem |-> e.dmem]
(* generator: pairs that are related or nearly so are the interesting ones; unrelated pairs are thinned out *)
Near(x, y) == ShadowSym(x, y) \/ ShadowSym(y, x) \/ ShadowLib(x, y, {}) \/ x.a.src = y.a.src \/ x.a.sp = y.a.sp
GenPair == (Gen /\ ph = 1 /\ Near(b, t)) => PrintT(ToJson([b |-> Slim(b), t |-> Slim(t), truth |-> ShadowSym(b, t)]))
=============================================================================
