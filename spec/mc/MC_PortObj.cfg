CONSTANT PMax = 6
CONSTANT MaxDepth = 4
CONSTANT Gen = FALSE
CONSTANT Tup <- AllTup
SPECIFICATION Spec
CONSTRAINT Bound
VIEW View
INVARIANT Agree
PROPERTY WB_Identity
PROPERTY WB_ItemsNeverRefused
PROPERTY SetPortsExact
PROPERTY SetLineFresh
CHECK_DEADLOCK FALSE
