CONSTANT PMax = 6
CONSTANT MaxDepth = 4
CONSTANT Gen = TRUE
CONSTANT Tup <- GenTup
SPECIFICATION Spec
CONSTRAINT Bound
INVARIANT GenLeaf
CHECK_DEADLOCK FALSE
