CONSTANT W = 3
CONSTANT Gen = FALSE
CONSTANT Universe <- Operands
SPECIFICATION Spec
INVARIANT L_Contained
INVARIANT L_LibExact
INVARIANT L_LibSound
INVARIANT L_Verdict
INVARIANT L_Pinned
CHECK_DEADLOCK FALSE
