--------------------------- MODULE MC_WildcardObj ---------------------------
(* All histories of New / SetLine / queries on one Wildcard object.        *)
EXTENDS WildcardObj, TLC, Json

CONSTANTS Limits,       \* set of limits tried
          Deviate,      \* TRUE: also allow the forbidden SetLineKeepMemo
          Ws,           \* wildcards offered to New / SetLine
          MaxDepth,     \* history length bound
          Gen           \* TRUE: print every maximal history as JSON (generator mode)

VARIABLES st, ret, ok, alive, depth, hist
vars == <<st, ret, ok, alive, depth, hist>>

Apply(r) == /\ st' = r.st /\ ret' = r.ret /\ ok' = r.ok /\ depth' = depth + 1
Log(a, w, lim) == hist' = Append(hist, [act |-> a, w |-> w, limit |-> lim])
ZW == [base |-> Zeros(W), mask |-> Zeros(W)]

Init == /\ st = [w |-> [base |-> Zeros(W), mask |-> Zeros(W)], limit |-> 0, hasMemo |-> FALSE, memo |-> {}]
        /\ ret = {} /\ ok = TRUE /\ alive = FALSE /\ depth = 0 /\ hist = <<>>

New(w, lim) == /\ ~alive
               /\ Apply(NewF(w, lim))
               /\ alive' = NewF(w, lim).ok /\ Log("New", w, lim)
SetLine(w)  == alive /\ Apply(SetLineF(st, w)) /\ UNCHANGED alive /\ Log("SetLine", w, 0)
SetLineKeepMemo(w) == Deviate /\ alive /\ Apply(SetLineKeepMemoF(st, w)) /\ UNCHANGED alive /\ Log("SetLine", w, 0)
SetLimit(lim) == alive /\ Apply(SetLimitF(st, lim)) /\ UNCHANGED alive /\ Log("SetLimit", ZW, lim)
QueryIpnets == alive /\ Apply(QueryIpnetsF(st)) /\ UNCHANGED alive /\ Log("QueryIpnets", ZW, 0)
QueryIpnet  == alive /\ Apply(QueryIpnetF(st)) /\ UNCHANGED alive /\ Log("QueryIpnet", ZW, 0)
QueryLine   == alive /\ Apply(QueryLineF(st)) /\ UNCHANGED alive /\ Log("QueryLine", ZW, 0)

Next == \/ \E w \in Ws, lim \in Limits : New(w, lim)
        \/ \E w \in Ws : SetLine(w)
        \/ \E w \in Ws : SetLineKeepMemo(w)
        \/ \E lim \in Limits \cup {31} : SetLimit(lim)
        \/ QueryIpnets \/ QueryIpnet \/ QueryLine

Spec == Init /\ [][Next]_vars

Bound == depth <= MaxDepth

TypeOK == alive => TypeOKSt(st)
NoStale == alive => NoStaleSt(st)
(* what a caller sees: the last answer of ipnets() describes the line *)
AnswerFresh == [][QueryIpnets => ret' = PrefixDecomp(st.w)]_vars
(* a refused assignment leaves the object as it was *)
RefuseKeeps == [][(\E w \in Wild : SetLine(w)) /\ ~ok' => st' = st]_vars
(* limits reject, never truncate *)
LimitRejects == [][\A w \in Wild : SetLine(w) => (ok' <=> ~TooManyNc(w, st.limit))]_vars
View == <<st, alive, depth>>
AllWild == Wild
(* generator alphabet: every mask shape over 3 bits with two bases *)
GenWs == {[base |-> b, mask |-> m] : b \in {<<1,0,1>>, <<0,1,0>>}, m \in BitVecs(W)}
GenWsQuick == {[base |-> <<1,0,1>>, mask |-> m] : m \in {<<0,0,0>>, <<0,1,1>>, <<1,0,1>>, <<1,1,0>>, <<0,1,0>>}}
GenLeaf == (Gen /\ depth = MaxDepth) => PrintT(ToJson([hist |-> hist]))
=============================================================================
