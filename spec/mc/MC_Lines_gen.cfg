CONSTANT MaxLen = 4
CONSTANT Gen = TRUE
SPECIFICATION Spec
INVARIANT GenKs
CHECK_DEADLOCK FALSE
