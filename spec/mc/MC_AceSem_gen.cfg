CONSTANT W = 2
CONSTANT PMax = 3
CONSTANT Gen = TRUE
CONSTANT Side = "src"
SPECIFICATION Spec
INVARIANT GenPair
CHECK_DEADLOCK FALSE
