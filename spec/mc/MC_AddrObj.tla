----------------------------- MODULE MC_AddrObj -----------------------------
(* Lemmas for C13 over W = 3: operands are single wildcards or groups of   *)
(* 0..2 member wildcards.                                                  *)
EXTENDS AddrObj, TLC, Json
CONSTANTS Gen, Universe

VARIABLES b, t, ph
NWild == {w \in Wild : IsNorm(w)}                  \* 27 distinct address sets
Groups == {<<>>} \cup {<<m>> : m \in NWild} \cup {<<m1, m2>> : m1 \in NWild, m2 \in NWild}
Operands == {[k |-> "wild", w |-> w, name |-> "", members |-> <<>>] : w \in NWild}
            \cup {[k |-> "group", w |-> ZeroW, name |-> "G", members |-> g] : g \in Groups}
Z == [k |-> "wild", w |-> ZeroW, name |-> "", members |-> <<>>]

Init == b \in Universe /\ t = Z /\ ph = 0
Next == ph = 0 /\ ph' = 1 /\ b' = b /\ t' \in Universe
Spec == Init /\ [][Next]_<<b, t, ph>>

(* symbolic exact containment = set containment *)
L_Contained == Contained(b, t) <=> AddrSet(b) \subseteq AddrSet(t)
(* the library's relation is exact without groups, and sound with them *)
L_LibExact == (b.k = "wild" /\ t.k = "wild") => (SubnetOfLib(b, t) <=> AddrSet(b) \subseteq AddrSet(t))
L_LibSound == SubnetOfLib(b, t) => (AddrSet(b) \subseteq AddrSet(t) /\ NetsOf(b) # {})
(* so the answer the library documents always passes the C13 verdict *)
L_Verdict == SubnetOfOK(b, t, SubnetOfLib(b, t))
(* and a wrong answer is rejected whenever one exists: group-free answers are pinned *)
L_Pinned == (b.k = "wild" /\ t.k = "wild") => ~SubnetOfOK(b, t, ~SubnetOfLib(b, t))

(* generator: every pair over all 27 single wildcards and a few groups *)
GenGroups == {<<>>, <<[base |-> <<1,0,0>>, mask |-> <<0,1,1>>]>>,
              <<[base |-> <<1,0,0>>, mask |-> <<0,0,1>>], [base |-> <<1,1,0>>, mask |-> <<0,0,1>>]>>,
              <<[base |-> <<0,0,0>>, mask |-> <<0,1,1>>], [base |-> <<1,0,1>>, mask |-> <<0,0,0>>]>>,
              <<[base |-> <<0,0,0>>, mask |-> <<1,0,1>>], [base |-> <<0,1,0>>, mask |-> <<0,0,1>>]>>,
              <<[base |-> <<0,0,0>>, mask |-> <<1,1,1>>]>>}
GenOperands == {o \in Operands : o.k = "wild" \/ o.members \in GenGroups}
GenPair == (Gen /\ ph = 1) => PrintT(ToJson([b |-> b, t |-> t]))
=============================================================================
