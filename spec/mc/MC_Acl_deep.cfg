CONSTANT W = 2
CONSTANT PMax = 3
CONSTANT FreshId <- FreshMC
CONSTANT Gen = FALSE
CONSTANT MaxItems = 2
CONSTANT MaxDepth = 4
SPECIFICATION Spec
VIEW View
INVARIANT P_C19
INVARIANT P_C04
INVARIANT P_C15
INVARIANT P_C15_Sort
INVARIANT P_C02
INVARIANT P_Type
CHECK_DEADLOCK FALSE
