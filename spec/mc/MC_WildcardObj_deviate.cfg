CONSTANT W = 3
CONSTANT Limits = {0, 1, 2}
CONSTANT Deviate = TRUE
CONSTANT Ws <- AllWild
CONSTANT MaxDepth = 5
CONSTANT Gen = FALSE
SPECIFICATION Spec
CONSTRAINT Bound
VIEW View
INVARIANT TypeOK
INVARIANT NoStale
PROPERTY AnswerFresh
PROPERTY RefuseKeeps
PROPERTY LimitRejects
CHECK_DEADLOCK FALSE
