CONSTANT W = 3
CONSTANT Limits = {0, 1, 2}
CONSTANT Deviate = FALSE
CONSTANT Ws <- GenWs
CONSTANT MaxDepth = 4
CONSTANT Gen = TRUE
SPECIFICATION Spec
CONSTRAINT Bound
INVARIANT GenLeaf
CHECK_DEADLOCK FALSE
