------------------------------ MODULE MC_Reseq ------------------------------
(* Every tree shape with <= MaxLeaves leaves, every (start, step) in       *)
(* -1..Max+1, limb base 4, Max = 12.                                       *)
EXTENDS Reseq, TLC, Json

CONSTANTS MaxLeaves, Gen
VARIABLES tree, s, d, res, ph
vars == <<tree, s, d, res, ph>>

MaxSeqMC == <<3, 0>>
MaxI == ToInt(MaxSeq)
Args == {OfInt(n) : n \in -1..(MaxI + 1)}
OldNums == {Zero, OfInt(7)}

(* shapes: a sequence of entry sizes; size 0 = single leaf, size k > 0 = block of k leaves *)
Shapes == UNION {[1..n -> 0..MaxLeaves] : n \in 0..MaxLeaves}
LeavesOf(sh) == LET RECURSIVE S(_) S(k) == IF k = 0 THEN 0 ELSE S(k - 1) + (IF sh[k] = 0 THEN 1 ELSE sh[k]) IN S(Len(sh))
MkTree(sh, old) == [i \in 1..Len(sh) |->
                      IF sh[i] = 0 THEN Leaf(old, "L")
                      ELSE [blk |-> TRUE, seq |-> old, sig |-> "", items |-> [j \in 1..sh[i] |-> Leaf(old, "I")]]]
(* blocks inside blocks (not printed by the generator cfg: the harness builds nested lists itself) *)
Blk(old, its) == [blk |-> TRUE, seq |-> old, sig |-> "", items |-> its]
NestedTrees == IF Gen THEN {} ELSE UNION {{
    <<Blk(old, <<Leaf(old, "I"), Blk(old, <<Leaf(old, "J"), Leaf(old, "J")>>)>>), Leaf(old, "L")>>,
    <<Leaf(old, "L"), Blk(old, <<Blk(old, <<Leaf(old, "J")>>), Leaf(old, "I")>>)>>,
    <<Blk(old, <<Blk(old, <<Blk(old, <<Leaf(old, "K")>>)>>)>>), Blk(old, <<Leaf(old, "I")>>)>>,
    <<Blk(old, <<Blk(old, <<Leaf(old, "J")>>), Blk(old, <<Leaf(old, "J"), Leaf(old, "J")>>)>>)>> } : old \in OldNums}
Trees == {MkTree(sh, old) : sh \in {x \in Shapes : LeavesOf(x) <= MaxLeaves}, old \in OldNums} \cup NestedTrees

Init == tree \in Trees /\ s = Zero /\ d = Zero /\ ph = 0 /\ res = [ok |-> TRUE, tree |-> tree, ret |-> Zero]
Call == /\ ph = 0 /\ ph' = 1 /\ UNCHANGED tree
        /\ \E a \in Args, b \in Args : s' = a /\ d' = b /\ res' = ResequenceF(tree, a, b)
Spec == Init /\ [][Call]_vars

(* C10 *)
P_Numbers == (ph = 1 /\ res.ok /\ ~IsZero(s)) => NumberedFrom(res.tree, s, d)
P_Clear   == (ph = 1 /\ res.ok /\ IsZero(s)) => AllCleared(res.tree)
P_Return  == (ph = 1 /\ res.ok) => res.ret = (IF tree = <<>> THEN s ELSE LastNumber(res.tree))
P_Only    == ph = 1 => Sigs(res.tree) = Sigs(tree)
P_Range   == (ph = 1 /\ res.ok) => InRange(res.tree)
P_Errors  == ph = 1 => (~res.ok <=> \/ ToInt(s) < 0 \/ ToInt(s) > MaxI
                                    \/ (ToInt(s) > 0 /\ ToInt(d) < 1)
                                    \/ (ToInt(s) > 0 /\ CountLeaves(tree) > 0 /\ ToInt(s) + ToInt(d) * (CountLeaves(tree) - 1) > MaxI))
(* limb arithmetic = integer arithmetic *)
L_Limb == ph = 1 => /\ ToInt(AddL(s, d)) = ToInt(s) + ToInt(d)
                    /\ (LeqL(s, d) <=> ToInt(s) <= ToInt(d))
                    /\ OfInt(ToInt(s)) = s
                    /\ \A k \in 0..MaxLeaves : ToInt(MulL(d, k)) = ToInt(d) * k
GenCall == (Gen /\ ph = 1) => PrintT(ToJson([tree |-> tree, s |-> s, d |-> d]))
=============================================================================
