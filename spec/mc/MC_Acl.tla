------------------------------- MODULE MC_Acl -------------------------------
(***************************************************************************)
(* The ACL machine on a small universe (W = 2, ports 1..3): every rule     *)
(* list of <= MaxItems items over an alphabet with duplicates, covers,     *)
(* nested covers, interleaved deny rules, multi-port eq / neq entries, a   *)
(* group with members, headings and plain remarks; one or two operations   *)
(* applied; every packet evaluated.                                        *)
(***************************************************************************)
EXTENDS AclSem, TLC, Json

CONSTANTS MaxItems, MaxDepth, Gen
VARIABLES items, prev, last, depth, seed, ops
vars == <<items, prev, last, depth, seed, ops>>

FreshMC == <<"*", 0>>
any == [k |-> "wild", w |-> AnyW, name |-> "", mem |-> <<>>]
W_(b, m) == [k |-> "wild", w |-> [base |-> b, mask |-> m], name |-> "", mem |-> <<>>]
G_ == [k |-> "group", w |-> ZeroW, name |-> "G", mem |-> <<[base |-> <<1,0>>, mask |-> <<0,0>>], [base |-> <<1,1>>, mask |-> <<0,0>>]>>]
P_(op, its) == [op |-> op, items |-> its]
F_(act, pr, s, dp) == [act |-> act, proto |-> pr, src |-> s, dst |-> any, sp |-> NoPort, dp |-> dp, flags |-> <<>>, logs |-> <<>>]
A_(n, f) == [kind |-> "ace", id |-> n, note |-> "", seq |-> <<0, 0>>, f |-> f, text |-> <<>>, rtext |-> "", heads |-> <<>>, items |-> <<>>]
R_(n, ws, rt, hd) == [kind |-> "remark", id |-> n, note |-> "", seq |-> <<0, 0>>, f |-> NoF, text |-> ws, rtext |-> rt, heads |-> hd, items |-> <<>>]

Alphabet == {
  A_("a1", F_("permit", 6, any, NoPort)),
  A_("a2", F_("permit", 6, W_(<<1,0>>, <<0,0>>), P_("eq", <<1>>))),
  A_("a3", F_("permit", 6, any, P_("eq", <<1, 3>>))),
  A_("a4", F_("deny", 6, W_(<<1,0>>, <<0,1>>), NoPort)),
  A_("a5", F_("permit", 6, W_(<<1,0>>, <<0,1>>), P_("range", <<1, 2>>))),
  A_("a6", F_("permit", 0, any, NoPort)),
  A_("a7", F_("deny", 17, any, P_("neq", <<2>>))),
  A_("a8", F_("permit", 17, any, P_("neq", <<1, 2>>))),
  A_("a9", F_("permit", 6, G_, NoPort)),
  R_("r1", <<"=", "H1">>, "= H1", <<"= ">>), R_("r2", <<"=", "H2">>, "= H2", <<"= ">>), R_("r3", <<"note">>, "note", <<>>) }

(* positions get distinct ids so that duplicates of one alphabet item are different objects *)
Lists == UNION {[1..n -> Alphabet] : n \in 0..MaxItems}
WithIds(l) == [i \in 1..Len(l) |-> [l[i] EXCEPT !.id = <<l[i].id, i>>]]

Packets == {p \in Packet({1, 6, 17}, {{}}) : p.da = <<0,0>> /\ p.sp = 0 /\ (p.proto = 1 => p.dp = 0)}
SameDecisions(x, y) == \A p \in Packets : DecisionOf(x, p) = DecisionOf(y, p)

Init == \E l \in Lists : items = WithIds(l) /\ prev = items /\ last = "init" /\ depth = 0 /\ seed = [i \in 1..Len(l) |-> l[i].id] /\ ops = <<>>
Do(a, new) == items' = new /\ prev' = items /\ last' = a /\ depth' = depth + 1 /\ seed' = seed /\ ops' = Append(ops, a)

Pre == "= "
UngroupPorts == Do("UngroupPorts", UngroupPortsItems(items))
GroupA       == Do("Group", GroupItems(items, Pre))
Ungroup      == Do("Ungroup", Flatten(items))
DeleteShadow == Do("DeleteShadow", DeleteShadowLeaves(items, {}))
Reverse      == Gen /\ Do("Reverse", [k \in 1..Len(items) |-> items[Len(items) + 1 - k]])
(* IOS -> NX-OS: one port per side, then the blocks are rebuilt when the list is grouped (items hold blocks) *)
Grouped(its) == \E k \in 1..Len(its) : IsBlock(its[k])
ToNxos       == ~Gen /\ Do("ToNxos", IF Grouped(items) THEN GroupItems(UngroupPortsItems(items), Pre) ELSE UngroupPortsItems(items))
(* acl.type = "standard": refused (list untouched) when a source names a group *)
ToStandard   == ~Gen /\ Do("ToStandard", IF StandardRefused(items) THEN items ELSE ToStandardItems(items))
Next == depth < MaxDepth /\ (UngroupPorts \/ GroupA \/ Ungroup \/ DeleteShadow \/ Reverse \/ ToNxos \/ ToStandard)
Spec == Init /\ [][Next]_vars

(* --- C15: after resequencing, sorting any permutation of the top-level items restores the numbered order ----- *)
R == INSTANCE Reseq WITH B <- 65536, MaxSeq <- <<65535, 65535>>
ToTree(its) == [k \in 1..Len(its) |->
                  [blk |-> IsBlock(its[k]), seq |-> its[k].seq, sig |-> its[k].id,
                   items |-> [j \in 1..Len(its[k].items) |-> [blk |-> FALSE, seq |-> its[k].items[j].seq, sig |-> its[k].items[j].id, items |-> <<>>]]]]
Renumber(its, s, d) ==
  LET t == R!NumTree(ToTree(its), s, d).out
  IN  [k \in 1..Len(its) |-> IF IsBlock(its[k])
                              THEN [its[k] EXCEPT !.seq = t[k].seq, !.items = [j \in 1..Len(its[k].items) |-> [its[k].items[j] EXCEPT !.seq = t[k].items[j].seq]]]
                              ELSE [its[k] EXCEPT !.seq = t[k].seq]]
SortBySeq(its) == SortSeq(its, LAMBDA a, b : R!LtL(a.seq, b.seq))
NoEmptyBlocks(its) == \A k \in 1..Len(its) : IsBlock(its[k]) => its[k].items # <<>>
P_C15_Sort == (Len(items) <= 4 /\ NoEmptyBlocks(items)) =>
  LET r == Renumber(items, <<0, 10>>, <<0, 10>>) IN
  /\ \A pi \in Permutations(1..Len(r)) : SortBySeq([k \in 1..Len(r) |-> r[pi[k]]]) = r
  /\ Flatten(r) = [k \in 1..Len(Flatten(items)) |-> [Flatten(items)[k] EXCEPT !.seq = <<0, 10 * k>>]]
  /\ Tcam(r) = Tcam(items)

AllSplitsSafe(x) == \A k \in 1..Len(Flatten(x)) : IsAce(Flatten(x)[k]) => SplitKeepsMeaning(Flatten(x)[k].f)
Ids(ls) == [k \in 1..Len(ls) |-> ls[k].id]

(* C19: splitting keeps every decision (when no multi-port neq is involved), one port per side afterwards *)
P_C19 == last = "UngroupPorts" =>
  /\ AllSplitsSafe(prev) => SameDecisions(prev, items)
  /\ \A k \in 1..Len(Flatten(items)) : LET x == Flatten(items)[k] IN
        IsAce(x) => (x.f.sp.op \in {"eq", "neq"} => Len(x.f.sp.items) = 1) /\ (x.f.dp.op \in {"eq", "neq"} => Len(x.f.dp.items) = 1)
  /\ \A k \in 1..Len(Flatten(prev)) : ~NeedsSplit(Flatten(prev)[k]) => \E j \in 1..Len(Flatten(items)) : Flatten(items)[j] = Flatten(prev)[k]
(* the deviation is real: a multi-port neq split changes some decision for some list *)
P_C19_DeviationExists == ~(last = "UngroupPorts" /\ ~AllSplitsSafe(prev) /\ ~SameDecisions(prev, items))

(* C04: removing shadowed entries changes no decision, removes only aces, keeps order, and is idempotent *)
P_C04 == last = "DeleteShadow" =>
  /\ SameDecisions(prev, items)
  /\ IsSubseqById(items, Flatten(prev))
  /\ SelectSeq(items, IsRemark) = SelectSeq(Flatten(prev), IsRemark)
  /\ ShadowedIdx(Aces(items), {}) = {}
  /\ \A j \in ShadowedIdx(Aces(prev), {}) :
        LET as == Aces(prev) i == FirstTop(as, j, {}) IN as[i].f.act = as[j].f.act /\ ShadowSym(Ent(as[j]), Ent(as[i]))

(* C15: grouping / ungrouping conserve the entries; with distinct headings also the order *)
P_C15 ==
  /\ last = "Group" => /\ HeadingsDistinct(prev, Pre) => Flatten(items) = Flatten(prev)
                       /\ \A k \in 1..Len(Flatten(prev)) :
                             (\E j \in 1..Len(Flatten(items)) : Flatten(items)[j] = Flatten(prev)[k]) \/ IsHeading(Flatten(prev)[k], Pre)
                       /\ SameDecisions(prev, items) \/ ~HeadingsDistinct(prev, Pre)
                       /\ Tcam(items) = Tcam(prev)
  /\ last = "Ungroup" => items = Flatten(prev) /\ Tcam(items) = Tcam(prev)
(* C02 at model level: converting to NX-OS keeps every decision (unless a multi-port neq is split, F1), leaves one port
   per side, keeps remarks and headings, and the estimate of hardware entries *)
P_C02 == last = "ToNxos" =>
  /\ ~UnsafeSplitIn(prev) => SameDecisions(prev, items)
  /\ \A k \in 1..Len(Flatten(items)) : LET x == Flatten(items)[k] IN
        IsAce(x) => (x.f.sp.op \in {"eq", "neq"} => Len(x.f.sp.items) = 1) /\ (x.f.dp.op \in {"eq", "neq"} => Len(x.f.dp.items) = 1)
  /\ HeadingsDistinct(prev, Pre) => SelectSeq(Flatten(items), IsRemark) = SelectSeq(Flatten(prev), IsRemark)
(* type change (not a listed property): accepted exactly when no source names a group; every entry then matches at least
   what it matched before, with the same action, in the same place; a refused change leaves the list untouched *)
Widened(a, b) == \A p \in Packets : Matches(Ent(a), p) => Matches(Ent(b), p)
P_Type == last = "ToStandard" =>
  IF StandardRefused(prev) THEN items = prev
  ELSE /\ Len(Flatten(items)) = Len(Flatten(prev))
       /\ \A k \in 1..Len(Flatten(prev)) : LET a == Flatten(prev)[k]  b == Flatten(items)[k] IN
             IF IsAce(a) THEN IsAce(b) /\ b.f.act = a.f.act /\ b.id = a.id /\ Widened(a, b) /\ b.f.src = a.f.src ELSE b = a
       /\ ToStandardItems(items) = items
View == <<items, prev, last, depth>>
GenHist == (Gen /\ depth = MaxDepth) => PrintT(ToJson([seed |-> seed, ops |-> ops]))
=============================================================================
