CONSTANT PMax = 6
SPECIFICATION Spec
INVARIANT L_Den
INVARIANT L_Cisco
INVARIANT L_Codec
CHECK_DEADLOCK FALSE
