CONSTANT B = 4
CONSTANT MaxSeq <- MaxSeqMC
CONSTANT MaxLeaves = 4
CONSTANT Gen = TRUE
SPECIFICATION Spec
INVARIANT GenCall
CHECK_DEADLOCK FALSE
