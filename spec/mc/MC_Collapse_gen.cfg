CONSTANT W = 3
CONSTANT MaxLen = 3
CONSTANT Gen = TRUE
SPECIFICATION Spec
INVARIANT GenLeaf
CHECK_DEADLOCK FALSE
