------------------------------ MODULE MC_Names ------------------------------
(* The keyword tables are closed under name -> number -> name -> number,   *)
(* functional across platforms, and disjoint from the grammar's keywords.  *)
(* One state per (table, pair).                                            *)
EXTENDS Names, TLC, Json, SequencesExt
CONSTANT Gen
VARIABLES tbl, pr
Tables == AllPortTables \cup {ProtoAsa, ProtoIos, ProtoNxos}
Init == tbl \in Tables /\ pr \in tbl
Next == UNCHANGED <<tbl, pr>>
Spec == Init /\ [][Next]_<<tbl, pr>>

P_RoundTrip == \A nm \in NamesFor(tbl, pr[2]) : NumOf(tbl, nm) = pr[2]
P_Functional == Functional(tbl) /\ Functional(TcpAll) /\ Functional(UdpAll) /\ Functional(ProtoAny)
P_NoCollision == pr[1] \notin Reserved /\ pr[1] \notin TcpFlagWords
P_Range == IF tbl \in AllPortTables THEN pr[2] \in 1..65535 ELSE pr[2] \in 0..255
P_InVocabulary == tbl \in AllPortTables => pr[1] \in AllPortNames
(* a name shared by the tcp and the udp family means the same number in both, except Cisco's
   'syslog' (tcp 514 is an alias of cmd; same number anyway) - stated so that the exception is explicit *)
P_TcpUdpAgree == \A p \in TcpAll : \A q \in UdpAll : p[1] = q[1] => p[2] = q[2]
GenNames == (Gen /\ tbl = TcpAsa /\ pr = <<"ssh", 22>>) =>
              PrintT(ToJson([ports |-> SetToSeq(AllPortNames), protos |-> SetToSeq(AllProtoNames),
                             reserved |-> SetToSeq(Reserved \cup TcpFlagWords)]))
=============================================================================
