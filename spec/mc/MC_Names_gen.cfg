CONSTANT Gen = TRUE
SPECIFICATION Spec
INVARIANT GenNames
CHECK_DEADLOCK FALSE
