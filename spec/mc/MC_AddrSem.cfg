CONSTANT W = 3
SPECIFICATION Spec
INVARIANT L_SubW
INVARIANT L_Norm
INVARIANT L_Decomp
INVARIANT L_Single
INVARIANT L_IsDecompOf
INVARIANT L_Cover
INVARIANT L_SubP
INVARIANT L_Conv
CHECK_DEADLOCK FALSE
