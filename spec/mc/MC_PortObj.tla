----------------------------- MODULE MC_PortObj -----------------------------
(* All histories of a Port object under its writable views.                *)
EXTENDS PortObj, SequencesExt, Json

CONSTANTS MaxDepth, Gen, Tup      \* Tup: operand tuples offered to New / SetItems
VARIABLES st, ok, alive, depth, hist, last
vars == <<st, ok, alive, depth, hist, last>>

NoDup(t) == \A i \in 1..Len(t) : \A j \in 1..Len(t) : i # j => t[i] # t[j]
AllTup == {t \in UNION {[1..n -> Port] : n \in 1..3} : NoDup(t)}
GenTup == {<<1>>, <<3>>, <<6>>, <<2, 5>>, <<5, 2>>, <<1, 6>>, <<3, 4>>, <<1, 2, 3>>, <<2, 4, 6>>}
GenTupQuick == {<<1>>, <<6>>, <<2>>, <<5, 2>>, <<3, 4>>, <<1, 6>>, <<2, 4, 6>>}
Subsets == {Canon(Points(SetToSeq(S))) : S \in SUBSET Port}

Log(a, o, xs) == hist' = Append(hist, [act |-> a, op |-> o, xs |-> xs])
Apply(r, a) == st' = r.st /\ ok' = r.ok /\ depth' = depth + 1 /\ last' = a

Init == st = Empty /\ ok = TRUE /\ alive = FALSE /\ depth = 0 /\ hist = <<>> /\ last = "none"

New(o, t)      == ~alive /\ Apply(NewF(o, t), "New") /\ alive' = NewF(o, t).ok /\ Log("New", o, t)
SetItems(t)    == alive /\ Apply(SetItemsF(st, t), "SetItems") /\ UNCHANGED alive /\ Log("SetItems", "", t)
SetLine(o, t)  == alive /\ (Gen => ArityOK(o, t)) /\ Apply(SetLineF(st, o, t), "SetLine") /\ UNCHANGED alive /\ Log("SetLine", o, t)
SetPorts(c)    == alive /\ ~Gen /\ Apply(SetPortsF(st, c), "SetPorts") /\ UNCHANGED alive /\ Log("SetPorts", "", <<>>)
WriteBackItems == alive /\ Apply(WriteBackItemsF(st), "WriteBackItems") /\ UNCHANGED alive /\ Log("WriteBackItems", "", <<>>)
WriteBackPorts == alive /\ Apply(WriteBackPortsF(st), "WriteBackPorts") /\ UNCHANGED alive /\ Log("WriteBackPorts", "", <<>>)
WriteBackSport == alive /\ Apply(WriteBackSportF(st), "WriteBackSport") /\ UNCHANGED alive /\ Log("WriteBackSport", "", <<>>)

Next == \/ \E o \in Ops, t \in Tup : New(o, t)
        \/ \E t \in Tup : SetItems(t)
        \/ \E o \in Ops, t \in (IF Gen THEN {st.items, <<5, 2>>} ELSE Tup) : SetLine(o, t)
        \/ \E c \in Subsets : SetPorts(c)
        \/ WriteBackItems \/ WriteBackPorts \/ WriteBackSport
Spec == Init /\ [][Next]_vars
Bound == depth <= MaxDepth
View == <<st, alive, depth>>

Agree == alive => ViewsAgree(st)
(* C08: a self-assignment leaves the object as it is; it can only be refused when the
   expression denotes no port at all (then no operand can be derived from the set)   *)
WriteBack == WriteBackItems \/ WriteBackPorts \/ WriteBackSport
WB_Identity == [][WriteBack => (st' = st /\ (~ok' => st.ports = <<>>))]_vars
WB_ItemsNeverRefused == [][WriteBackItems => ok']_vars
(* an accepted port-set assignment denotes exactly the assigned set *)
SetPortsExact == [][\A c \in Subsets : (SetPorts(c) /\ ok') => st'.ports = c]_vars
(* a re-assigned line leaves nothing of the previous expression behind: the object equals a fresh one *)
SetLineFresh == [][\A o \in Ops, t \in Tup : (SetLine(o, t) /\ ok') => st' = NewF(o, t).st]_vars
GenLeaf == (Gen /\ depth = MaxDepth) => PrintT(ToJson([hist |-> hist]))
=============================================================================
