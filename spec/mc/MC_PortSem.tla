----------------------------- MODULE MC_PortSem -----------------------------
(* Lemmas: interval semantics = enumerated sets, for every operator and    *)
(* every operand tuple over 1..PMax (+ out-of-range neighbours 0, PMax+1   *)
(* for the boundary behaviour of lt / gt), and the codec on all subsets.   *)
EXTENDS PortSem, SequencesExt

VARIABLES op, items, ph
vars == <<op, items, ph>>

Operand == 0..(PMax + 1)
Tuples == UNION {[1..n -> Operand] : n \in 1..3}

Init == op \in Ops /\ items = <<1>> /\ ph = 0
Next == ph = 0 /\ ph' = 1 /\ op' = op /\ items' \in {t \in Tuples : ArityOK(op, t)}
Spec == Init /\ [][Next]_vars

L_Den == ArityOK(op, items) =>
           /\ Expand(PIv(op, items)) = PDen(op, items)
           /\ IsCanon(PIv(op, items))
           /\ IvCount(PIv(op, items)) = Cardinality(PDen(op, items))

(* Cisco's words, stated directly *)
L_Cisco == ArityOK(op, items) =>
  LET S == PDen(op, items) IN
  CASE op = "eq"    -> \A p \in Port : p \in S <=> \E k \in 1..Len(items) : items[k] = p
    [] op = "neq"   -> \A p \in Port : p \in S <=> \A k \in 1..Len(items) : items[k] # p
    [] op = "lt"    -> \A p \in Port : p \in S <=> p < items[1]
    [] op = "gt"    -> \A p \in Port : p \in S <=> p > items[1]
    [] op = "range" -> /\ \A p \in Port : p \in S <=> \/ (items[1] <= p /\ p <= items[2])
                                                      \/ (items[2] <= p /\ p <= items[1])
                       /\ PDen(op, items) = PDen(op, <<items[2], items[1]>>)

(* codec: every subset of 1..PMax has exactly one canonical list, Canon is idempotent, and
   containment on lists is containment of sets *)
L_Codec == \A S \in SUBSET Port :
             LET c == Canon(Points(SetToSeq(S))) IN
             /\ Expand(c) = S /\ IsCanon(c) /\ Canon(c) = c /\ Decode(Encode(c)) = c
             /\ Expand(Compl(c)) = Port \ S /\ IsCanon(Compl(c))
             /\ (ArityOK(op, items) => (IvSubset(c, PIv(op, items)) <=> S \subseteq PDen(op, items)))
=============================================================================
