----------------------------- MODULE MC_AddrSem -----------------------------
(***************************************************************************)
(* Lemmas tying the symbolic address operators (used at W = 32 to judge    *)
(* traces of the implementation) to the enumerative ground truth.  One     *)
(* TLC state per input pair, so "distinct states" = inputs checked.        *)
(***************************************************************************)
EXTENDS AddrSem, TLC, SequencesExt

VARIABLES b, t, ph      \* two arbitrary wildcards (base bits may be dirty)

(* one initial state per b; its successors enumerate t (so the workers share the pairs) *)
Init == b \in Wild /\ t = [base |-> Zeros(W), mask |-> Zeros(W)] /\ ph = 0
Next == ph = 0 /\ t' \in Wild /\ b' = b /\ ph' = 1
Spec == Init /\ [][Next]_<<b, t, ph>>

SetOfSeq(s) == {s[i] : i \in 1..Len(s)}

(* C13: bit algebra = set containment *)
L_SubW == SubW(b, t) <=> Members(b) \subseteq Members(t)

(* Norm does not change the meaning *)
L_Norm == Members(Norm(b)) = Members(b)

(* C05: the decomposition is an exact partition into 2^k equal prefixes *)
L_Decomp ==
  LET ps == PrefixDecomp(b)
  IN  /\ ps \subseteq Prefix
      /\ UnionPfx(ps) = Members(b)
      /\ \A p \in ps : \A q \in ps : p # q => PfxMembers(p) \cap PfxMembers(q) = {}
      /\ Cardinality(ps) = Pow2(Cardinality(NcIdx(b.mask)))
      /\ \A p \in ps : p.len = W - LowRun(b.mask)

(* C05: a single network exists exactly for contiguous masks *)
L_Single ==
  /\ IsContig(b.mask) <=> \E p \in Prefix : PfxMembers(p) = Members(b)
  /\ IsContig(b.mask) => PfxMembers(PfxOfWild(b)) = Members(b)

(* the cheap characterisation used on traces is equivalent to equality *)
L_IsDecompOf ==
  \A ps \in {PrefixDecomp(b), PrefixDecomp(t)} :
     LET s == SetToSeq(ps)
     IN  IsDecompOf(s, b) <=> (ps = PrefixDecomp(b))

(* C13/C03: the library's list relation is exact for group-free operands *)
L_Cover == Cover(PrefixDecomp(t), PrefixDecomp(b)) <=> SubW(b, t)

(* prefix containment *)
L_SubP == \A p \in PrefixDecomp(b) : \A q \in PrefixDecomp(t) :
             SubP(p, q) <=> PfxMembers(p) \subseteq PfxMembers(q)

(* wildcard <-> prefix conversions *)
L_Conv == \A p \in PrefixDecomp(b) :
             /\ Members(WildOfPfx(p)) = PfxMembers(p)
             /\ IsContig(WildOfPfx(p).mask)
             /\ PfxOfWild(WildOfPfx(p)) = p
=============================================================================
