----------------------------- MODULE MC_AceText -----------------------------
(* The reader inverts the writer: for every abstract entry of the model    *)
(* grammar on both platforms, ParseAce(RenderCanon(a)) means a, keeps the  *)
(* number, flags and log keywords, and is native text for the platform.    *)
EXTENDS AceText, TLC
VARIABLES a, plat
vars == <<a, plat>>

Addrs == {WildSpec([base |-> <<0,0,0>>, mask |-> <<1,1,1>>]), WildSpec([base |-> <<1,0,1>>, mask |-> <<0,0,0>>]),
          WildSpec([base |-> <<1,0,0>>, mask |-> <<0,1,1>>]), WildSpec([base |-> <<0,0,1>>, mask |-> <<1,1,0>>]),
          WildSpec([base |-> <<1,0,0>>, mask |-> <<0,1,0>>]), GroupSpec("G1")}
Ports == {NoPort, [op |-> "eq", items |-> <<2>>], [op |-> "eq", items |-> <<2, 5>>], [op |-> "neq", items |-> <<3>>],
          [op |-> "lt", items |-> <<1>>], [op |-> "gt", items |-> <<6>>], [op |-> "range", items |-> <<2, 4>>]}
Tails == {<<>>, <<"ack">>, <<"ack", "syn">>}
Logs == {<<>>, <<"log">>, <<"log-input">>}
Seqs == {<<0, 0>>, <<0, 10>>, <<65535, 65535>>}

Mk(typ, sq, act, pr, s, sp, d, dp, fl, lg) ==
  [ok |-> TRUE, typ |-> typ, seq |-> sq, act |-> act, proto |-> pr, src |-> s, dst |-> d, sp |-> sp, dp |-> dp,
   flags |-> fl, logs |-> lg, sk |-> NoSpell]
Universe ==
  {Mk("extended", sq, "permit", 6, s, sp, d, dp, fl, <<>>) : sq \in {<<0,0>>}, s \in Addrs, d \in Addrs, sp \in Ports, dp \in Ports, fl \in Tails}
  \cup {Mk("extended", sq, act, 17, s, sp, d, dp, <<>>, lg) : sq \in Seqs, act \in {"permit", "deny"}, s \in Addrs, d \in {WildSpec(AnyW)}, sp \in Ports, dp \in Ports, lg \in Logs}
  \cup {Mk("extended", sq, act, pr, s, NoPort, d, NoPort, <<>>, lg) : sq \in Seqs, act \in {"permit", "deny"}, pr \in {0, 1, 4, 47, 51, 200, 255},
                                                                    s \in Addrs, d \in Addrs, lg \in Logs}
  \cup {Mk("standard", sq, act, 0, s, NoPort, WildSpec(AnyW), NoPort, <<>>, lg) : sq \in Seqs, act \in {"permit", "deny"}, s \in Addrs \ {GroupSpec("G1")}, lg \in Logs}

MultiEq(x) == (x.sp.op \in {"eq", "neq"} /\ Len(x.sp.items) > 1) \/ (x.dp.op \in {"eq", "neq"} /\ Len(x.dp.items) > 1)
Valid(p, x) == p = "ios" \/ (~MultiEq(x) /\ x.typ = "extended")

Init == a \in Universe /\ plat \in {"ios", "nxos"}
Next == UNCHANGED vars
Spec == Init /\ [][Next]_vars

L_RoundTrip == Valid(plat, a) =>
  LET p == ParseAce(plat, 0, RenderCanon(plat, a)) IN
  /\ p.ok /\ p.typ = a.typ
  /\ Meaning(p) = Meaning(a)
  /\ p.seq = a.seq /\ p.flags = a.flags /\ p.logs = a.logs
  /\ p.sp = a.sp /\ p.dp = a.dp
  /\ NativeAce(plat, p)
  /\ SwitchesRespected(p, TRUE, FALSE)
(* what is not valid on NX-OS is not read as an entry there *)
L_NxosRejects == (plat = "nxos" /\ MultiEq(a)) => ~ParseAce(plat, 0, RenderCanon("ios", a)).ok
=============================================================================
