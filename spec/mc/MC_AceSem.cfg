CONSTANT W = 2
CONSTANT PMax = 3
CONSTANT Gen = FALSE
CONSTANT Side = "src"
SPECIFICATION Spec
INVARIANT L_Sym
INVARIANT L_LibSound
INVARIANT L_Mono
INVARIANT L_LibExact
INVARIANT L_Nothing
CHECK_DEADLOCK FALSE
