CONSTANT W = 2
CONSTANT PMax = 3
CONSTANT FreshId <- FreshMC
CONSTANT MaxItems = 3
CONSTANT MaxDepth = 2
SPECIFICATION Spec
INVARIANT P_C19_DeviationExists
CHECK_DEADLOCK FALSE
