----------------------------- MODULE MC_Collapse -----------------------------
(* Every input list of <= MaxLen prefixes over W bits: the work-list loop  *)
(* terminates and its sorted result satisfies Post (both forms).           *)
EXTENDS Collapse, Json

CONSTANTS MaxLen, Gen
VARIABLES input, s
vars == <<input, s>>

Lists == UNION {[1..n -> Prefix] : n \in 0..MaxLen}

Init == input \in Lists /\ s = [work |-> input, out |-> <<>>]
Step == s.work # <<>> /\ s' = StepF(s) /\ UNCHANGED input
Spec == Init /\ [][Step]_vars /\ WF_vars(Step)

Done == s.work = <<>>
Terminates == <>Done
(* (no simple decreasing measure: with 0/0 and both halves present the list rotates once) *)

PostHolds == Done => /\ Post(input, SortPfx(s.out))
                     /\ PostEnum(input, SortPfx(s.out))
                     /\ SortPfx(s.out) = CollapseF(input)
(* conservation during the run: nothing is ever lost or gained *)
Conserve == UnionPfx(SeqSet(s.work) \cup SeqSet(s.out)) = UnionPfx(SeqSet(input))
Bounded == Len(s.work) + Len(s.out) <= Len(input)
(* Post's symbolic union test agrees with enumeration on arbitrary (in, out) pairs *)
L_SameUnion == \A k \in 1..Len(input) :
                 LET a == SeqSet(SubSeq(input, 1, k)) b == SeqSet(SubSeq(input, k + 1, Len(input)))
                 IN  SameUnion(a, b) <=> (UnionPfx(a) = UnionPfx(b))
GenLeaf == (Gen /\ s.out = <<>> /\ s.work = input) => PrintT(ToJson([input |-> input]))
=============================================================================
