CONSTANT Gen = FALSE
SPECIFICATION Spec
INVARIANT P_RoundTrip
INVARIANT P_Functional
INVARIANT P_NoCollision
INVARIANT P_Range
INVARIANT P_InVocabulary
INVARIANT P_TcpUdpAgree
CHECK_DEADLOCK FALSE
