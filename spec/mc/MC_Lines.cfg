CONSTANT MaxLen = 5
CONSTANT Gen = FALSE
SPECIFICATION Spec
INVARIANT P_Accounted
INVARIANT P_FailOnlyIfDocumented
CHECK_DEADLOCK FALSE
