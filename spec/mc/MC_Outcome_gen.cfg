CONSTANT MaxLen = 3
CONSTANT VocSize = 16
CONSTANT Gen = TRUE
SPECIFICATION Spec
INVARIANT TypeOK
INVARIANT GenSoup
CHECK_DEADLOCK FALSE
