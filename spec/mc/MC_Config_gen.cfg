CONSTANT MaxSecs = 4
CONSTANT RefOf <- RefMC
CONSTANT Gen = TRUE
SPECIFICATION Spec
INVARIANT GenCfg
CHECK_DEADLOCK FALSE
