CONSTANT MaxSecs = 4
CONSTANT Gen = TRUE
SPECIFICATION Spec
INVARIANT GenCfg
CHECK_DEADLOCK FALSE
