------------------------------ MODULE AceText ------------------------------
(***************************************************************************)
(* An independent reader (and spelling checker) of Cisco ACE syntax over   *)
(* typed tokens (see AddrText for the token shapes).                       *)
(*                                                                         *)
(*   [seq] action [protocol] srcaddr [portexpr] [dstaddr [portexpr]] opts  *)
(*                                                                         *)
(* ParseAce(plat, vmajor, toks) -> record                                  *)
(*   ok     the token sequence is an ACE of the supported grammar          *)
(*   typ    "extended" | "standard"                                        *)
(*   seq    sequence number as a limb pair (<<0,0>> = none)                *)
(*   act    "permit" | "deny"                                              *)
(*   proto  0..255 (0 = ip)                                                *)
(*   src, dst   AddrSpec ([k, w, name], AddrText)                          *)
(*   sp, dp     port expression [op, items] (op = "" : none)               *)
(*   flags, logs   option words in order                                   *)
(*   sk     the SPELLINGS used (so that "is this native text for the       *)
(*          platform" can be decided without a second grammar)             *)
(*                                                                         *)
(* Port operands are read as Cisco does: by the operator's arity, a name   *)
(* being valid only if the platform's table for that protocol has it.      *)
(***************************************************************************)
EXTENDS AddrText, PortSem, Names

NoPort == [op |-> "", items |-> <<>>]
NoSpell == [seq |-> FALSE, proto |-> "none", src |-> "none", dst |-> "none", spn |-> <<>>, dpn |-> <<>>]
BadAce == [ok |-> FALSE, typ |-> "", seq |-> <<0, 0>>, act |-> "", proto |-> 0,
           src |-> Bad, dst |-> Bad, sp |-> NoPort, dp |-> NoPort, flags |-> <<>>, logs |-> <<>>, sk |-> NoSpell]

NumVal(tk) == tk.h * 65536 + tk.n            \* only used when tk.h is small
IsNum(tk) == tk.t = "n"
IsWord(tk) == tk.t = "w"
ProtoName(n) == IF n = 6 THEN "tcp" ELSE IF n = 17 THEN "udp" ELSE ""

Drop(s, k) == SubSeq(s, k + 1, Len(s))
Take(s, k) == SubSeq(s, 1, k)

(* spelling kind of an address at the head of toks (width given) *)
AddrKind(toks) ==
  CASE IsW(toks[1], "any") -> "any"
    [] IsW(toks[1], "host") -> "host"
    [] IsW(toks[1], "object-group") -> "object-group"
    [] IsW(toks[1], "addrgroup") -> "addrgroup"
    [] toks[1].t = "pfx" -> "pfx"
    [] toks[1].t = "ip" /\ Len(toks) >= 2 /\ toks[2].t = "ip" -> "wild"
    [] toks[1].t = "ip" -> "bare"
    [] OTHER -> "none"

(* the group keyword is the platform's own ("object-group" on IOS / ASA, "addrgroup" on NX-OS) *)
KwOK(plat, kind) == (kind = "object-group" => plat # "nxos") /\ (kind = "addrgroup" => plat = "nxos")

(* --- port expression at the head of toks -------------------------------- *)
(* operand value: a number 1.. or a name of the table; 0 = not an operand  *)
OperandVal(tbl, tk) ==
  IF IsNum(tk) THEN (IF tk.h = 0 THEN tk.n ELSE 70000)          \* anything above 65535 is out of range
  ELSE IF IsWord(tk) /\ Has(tbl, tk.s) THEN NumOf(tbl, tk.s) ELSE 0
IsOperand(tbl, tk) == IsNum(tk) \/ (IsWord(tk) /\ Has(tbl, tk.s))

RECURSIVE CountOperands(_, _, _)
CountOperands(tbl, toks, k) ==     \* how many leading tokens from position k are operands
  IF k > Len(toks) \/ ~IsOperand(tbl, toks[k]) THEN 0 ELSE 1 + CountOperands(tbl, toks, k + 1)

(* returns [ok, n (tokens consumed), pe, names (per operand: TRUE if spelled as a name)] *)
ParsePort(tbl, maxOperands, toks) ==
  IF toks = <<>> \/ ~(IsWord(toks[1]) /\ toks[1].s \in Ops)
  THEN [ok |-> TRUE, n |-> 0, pe |-> NoPort, names |-> <<>>]
  ELSE LET op == toks[1].s
           avail == CountOperands(tbl, toks, 2)
           want == CASE op \in {"lt", "gt"} -> 1 [] op = "range" -> 2 [] OTHER -> IF avail < maxOperands THEN avail ELSE maxOperands
           its == [k \in 1..want |-> OperandVal(tbl, toks[k + 1])]
       IN  IF avail < want \/ want = 0 \/ tbl = {} THEN [ok |-> FALSE, n |-> 0, pe |-> NoPort, names |-> <<>>]
           ELSE IF \E k \in 1..want : its[k] > 65535      \* operand 0 is accepted (it denotes no port of 1..PMax: lt 0 = lt 1 = nothing)
                THEN [ok |-> FALSE, n |-> 0, pe |-> NoPort, names |-> <<>>]
                ELSE [ok |-> TRUE, n |-> want + 1, pe |-> [op |-> op, items |-> SortNat(its)],
                      names |-> [k \in 1..want |-> IsWord(toks[k + 1])]]

(* --- options -------------------------------------------------------------- *)
AllWords(toks) == \A k \in 1..Len(toks) : IsWord(toks[k])
Words(toks) == [k \in 1..Len(toks) |-> toks[k].s]
OnlyIn(ws, S) == SelectSeq(ws, LAMBDA x : x \in S)
NotIn(ws, S) == SelectSeq(ws, LAMBDA x : x \notin S)

(* --- the ACE --------------------------------------------------------------- *)
MaxEq(plat) == IF plat = "ios" THEN 10 ELSE 1        \* operands of eq / neq

ParseAce(plat, vmajor, toks0) ==
  LET hasSeq == Len(toks0) >= 2 /\ IsNum(toks0[1])
      seq == IF hasSeq THEN <<toks0[1].h, toks0[1].n>> ELSE <<0, 0>>
      t1 == IF hasSeq THEN Tail(toks0) ELSE toks0
  IN
  IF Len(t1) < 2 \/ ~(IsWord(t1[1]) /\ t1[1].s \in {"permit", "deny"}) THEN BadAce
  ELSE
  LET act == t1[1].s
      t2 == Tail(t1)
  IN
  IF AddrWidth(t2) > 0 \/ (t2[1].t = "ip" /\ AddrKind(t2) = "bare")
  THEN \* ---------------- standard ACE: action addr [log ...]
       LET wdt == IF AddrWidth(t2) > 0 THEN AddrWidth(t2) ELSE 1
           a == ParseAddr(Take(t2, wdt))
           rest == Drop(t2, wdt)
       IN IF a.k = "bad" \/ ~AllWords(rest) \/ a.k = "group"
             \/ (\E k \in 1..Len(rest) : rest[k].s \notin LogKeywords)      \* a standard entry carries log keywords only
          THEN BadAce
          ELSE [ok |-> TRUE, typ |-> "standard", seq |-> seq, act |-> act, proto |-> 0,
                src |-> a, dst |-> WildSpec(AnyW), sp |-> NoPort, dp |-> NoPort,
                flags |-> NotIn(Words(rest), LogKeywords), logs |-> OnlyIn(Words(rest), LogKeywords),
                sk |-> [seq |-> hasSeq, proto |-> "none", src |-> AddrKind(t2), dst |-> "none", spn |-> <<>>, dpn |-> <<>>]]
  ELSE \* ---------------- extended ACE
  LET ptk == t2[1]
      pok == (IsNum(ptk) /\ ptk.h = 0 /\ ptk.n <= 255) \/ (IsWord(ptk) /\ Has(ProtoAny, ptk.s))
      proto == IF IsNum(ptk) THEN ptk.n ELSE IF IsWord(ptk) /\ Has(ProtoAny, ptk.s) THEN NumOf(ProtoAny, ptk.s) ELSE 0
      tbl == PortTable(plat, vmajor, ProtoName(proto))
      t3 == Tail(t2)
      w1 == AddrWidth(t3)
  IN
  IF ~pok \/ w1 = 0 THEN BadAce
  ELSE
  LET src == ParseAddr(Take(t3, w1))
      t4 == Drop(t3, w1)
      p1 == ParsePort(tbl, MaxEq(plat), t4)
  IN
  IF src.k = "bad" \/ ~p1.ok \/ ~KwOK(plat, AddrKind(t3)) THEN BadAce
  ELSE
  LET t5 == Drop(t4, p1.n)
      w2 == AddrWidth(t5)
  IN
  IF w2 = 0 THEN BadAce
  ELSE
  LET dst == ParseAddr(Take(t5, w2))
      t6 == Drop(t5, w2)
      p2 == ParsePort(tbl, MaxEq(plat), t6)
  IN
  IF dst.k = "bad" \/ ~p2.ok \/ ~KwOK(plat, AddrKind(t5)) THEN BadAce
  ELSE
  LET rest == Drop(t6, p2.n) IN
  IF ~AllWords(rest) \/ (\E k \in 1..Len(rest) : rest[k].s \in Ops) THEN BadAce
  ELSE [ok |-> TRUE, typ |-> "extended", seq |-> seq, act |-> act, proto |-> proto,
        src |-> src, dst |-> dst, sp |-> p1.pe, dp |-> p2.pe,
        flags |-> NotIn(Words(rest), LogKeywords), logs |-> OnlyIn(Words(rest), LogKeywords),
        sk |-> [seq |-> hasSeq, proto |-> IF IsNum(ptk) THEN "num" ELSE ptk.s,
                src |-> AddrKind(t3), dst |-> AddrKind(t5), spn |-> p1.names, dpn |-> p2.names]]

---------------------------------------------------------------------------
(* Writing an entry: one canonical token sequence per platform (numbers    *)
(* for ports, the platform's keyword for the protocol when it has one).    *)
WTok(x) == [t |-> "w", s |-> x, b |-> <<>>, n |-> 0, h |-> 0]
NTok(v) == [t |-> "n", s |-> "", b |-> <<>>, n |-> v, h |-> 0]
FullTok(tk) == [t |-> tk.t, s |-> tk.s, b |-> tk.b, n |-> tk.n, h |-> 0]
AddrToks(plat, a) == LET r == RenderAddr(plat, a) IN [k \in 1..Len(r) |-> FullTok(r[k])]
PortToks(pe) == IF pe.op = "" THEN <<>> ELSE <<WTok(pe.op)>> \o [k \in 1..Len(pe.items) |-> NTok(pe.items[k])]
ProtoTok(plat, n) == LET nm == NamesFor(ProtoTable(plat), n) IN IF nm = {} THEN NTok(n) ELSE WTok(CHOOSE x \in nm : TRUE)
WordToks(ws) == [k \in 1..Len(ws) |-> WTok(ws[k])]
RenderCanon(plat, a) ==
  (IF a.seq = <<0, 0>> THEN <<>> ELSE <<[t |-> "n", s |-> "", b |-> <<>>, n |-> a.seq[2], h |-> a.seq[1]]>>)
  \o <<WTok(a.act)>>
  \o (IF a.typ = "standard" THEN AddrToks(plat, a.src)
      ELSE <<ProtoTok(plat, a.proto)>> \o AddrToks(plat, a.src) \o PortToks(a.sp) \o AddrToks(plat, a.dst) \o PortToks(a.dp))
  \o WordToks(a.flags) \o WordToks(a.logs)

---------------------------------------------------------------------------
(* Meaning: what the entry matches, independent of spelling.               *)
PortDen(pe) == IF pe.op = "" THEN <<"none">> ELSE <<"set", PIv(pe.op, pe.items)>>
AddrMeaning(a) == IF a.k = "group" THEN <<"group", a.name>> ELSE <<"wild", Norm(a.w)>>
SeqSetW(s) == {s[i] : i \in 1..Len(s)}
Meaning(a) == [act |-> a.act, proto |-> a.proto, src |-> AddrMeaning(a.src), dst |-> AddrMeaning(a.dst),
               sp |-> PortDen(a.sp), dp |-> PortDen(a.dp), flags |-> SeqSetW(a.flags)]

(* Native text for a platform: only syntax that platform's CLI accepts.    *)
AddrNative(plat, kind) ==
  IF plat = "nxos" THEN kind \in {"any", "host", "pfx", "wild", "addrgroup"}
  ELSE kind \in {"any", "host", "wild", "object-group", "bare"}
NativeAce(plat, a) ==
  /\ a.ok
  /\ AddrNative(plat, a.sk.src)
  /\ a.typ = "extended" => AddrNative(plat, a.sk.dst) /\ a.sk.dst # "bare" /\ a.sk.src # "bare"
  /\ a.sk.proto \in {"none", "num"} \/ Has(ProtoTable(plat), a.sk.proto)
  /\ plat = "nxos" => a.typ = "extended"
  /\ (a.sp.op # "" \/ a.dp.op # "") => a.proto \in {6, 17}
  /\ (a.sp.op # "" \/ a.dp.op # "") => a.sk.proto # "num"        \* port operators follow the tcp / udp keyword only
(* the names-as-numbers switches: with the switch on nothing is spelled as a name
   (tcp/udp keep their names when the entry has ports: Cisco would not accept "6 ... eq 80") *)
SwitchesRespected(a, portNr, protoNr) ==
  /\ portNr => (\A k \in 1..Len(a.sk.spn) : ~a.sk.spn[k]) /\ (\A k \in 1..Len(a.sk.dpn) : ~a.sk.dpn[k])
  /\ (protoNr /\ a.sp.op = "" /\ a.dp.op = "" /\ a.typ = "extended") => a.sk.proto = "num"
=============================================================================
