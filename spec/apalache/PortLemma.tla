----------------------------- MODULE PortLemma -----------------------------
(* The interval algebra of PortSem.tla IS set algebra on ports, at the REAL  *)
(* port range 1..65535 (TLC enumerates the same at PMax = 6):                 *)
(*   Subset:  on canonical interval lists (ascending, non-adjacent)           *)
(*            IvSubset(a, b)  <=>  every port of a is a port of b             *)
(*            (sound for every port p; complete by a finite set of explicit   *)
(*            witnesses: the ends of a's intervals and the port just after    *)
(*            each interval of b)                                             *)
(*   Compl:   the gap list Compl(a) is canonical and holds exactly the ports  *)
(*            of 1..65535 that a does not hold            (the `neq` path)    *)
(*   Ops:     lt / gt / range intervals (PIv) hold exactly the ports Cisco's  *)
(*            words give them (PDen), for every operand 0..65535              *)
(* Lists are bounded to 3 intervals each (a, b free), every bound an          *)
(* arbitrary integer of 0..65536; Apalache decides symbolically (SMT).        *)
(*   apalache-mc check --init=Init --inv=Lemma --length=0 PortLemma.tla       *)
EXTENDS Integers

PMax == 65535
N == 3
Idx == 1..N

VARIABLES
  \* @type: Int;
  an,
  \* @type: Int -> Int;
  alo,
  \* @type: Int -> Int;
  ahi,
  \* @type: Int;
  bn,
  \* @type: Int -> Int;
  blo,
  \* @type: Int -> Int;
  bhi,
  \* @type: Int;
  p,       \* a port
  \* @type: Int;
  x,       \* first operand
  \* @type: Int;
  y        \* second operand

Val == 0..(PMax + 1)
Init == /\ an \in 0..N /\ bn \in 0..N
        /\ \E v1 \in Val, v2 \in Val, v3 \in Val : alo = [i \in Idx |-> IF i = 1 THEN v1 ELSE IF i = 2 THEN v2 ELSE v3]
        /\ \E v1 \in Val, v2 \in Val, v3 \in Val : ahi = [i \in Idx |-> IF i = 1 THEN v1 ELSE IF i = 2 THEN v2 ELSE v3]
        /\ \E v1 \in Val, v2 \in Val, v3 \in Val : blo = [i \in Idx |-> IF i = 1 THEN v1 ELSE IF i = 2 THEN v2 ELSE v3]
        /\ \E v1 \in Val, v2 \in Val, v3 \in Val : bhi = [i \in Idx |-> IF i = 1 THEN v1 ELSE IF i = 2 THEN v2 ELSE v3]
        /\ p \in 1..PMax /\ x \in 0..PMax /\ y \in 0..PMax
Next == UNCHANGED <<an, alo, ahi, bn, blo, bhi, p, x, y>>

\* PortSem.IsCanon on components
CanonA == /\ \A i \in Idx : i <= an => (1 <= alo[i] /\ alo[i] <= ahi[i] /\ ahi[i] <= PMax)
          /\ \A i \in Idx : (i + 1 <= an) => ahi[i] + 1 < alo[i + 1]
CanonB == /\ \A i \in Idx : i <= bn => (1 <= blo[i] /\ blo[i] <= bhi[i] /\ bhi[i] <= PMax)
          /\ \A i \in Idx : (i + 1 <= bn) => bhi[i] + 1 < blo[i + 1]
\* merely sorted and disjoint (adjacent intervals allowed): NOT canonical
SortedA == /\ \A i \in Idx : i <= an => (1 <= alo[i] /\ alo[i] <= ahi[i] /\ ahi[i] <= PMax)
           /\ \A i \in Idx : (i + 1 <= an) => ahi[i] < alo[i + 1]
SortedB == /\ \A i \in Idx : i <= bn => (1 <= blo[i] /\ blo[i] <= bhi[i] /\ bhi[i] <= PMax)
           /\ \A i \in Idx : (i + 1 <= bn) => bhi[i] < blo[i + 1]

\* @type: Int => Bool;
InA(q) == \E i \in Idx : i <= an /\ alo[i] <= q /\ q <= ahi[i]
\* @type: Int => Bool;
InB(q) == \E j \in Idx : j <= bn /\ blo[j] <= q /\ q <= bhi[j]

\* PortSem.IvSubset
IvSubset == \A i \in Idx : i <= an => \E j \in Idx : j <= bn /\ blo[j] <= alo[i] /\ ahi[i] <= bhi[j]

\* a port of a outside b, if there is one, is among: ends of a's intervals, the port after an interval of b
Escapes == \/ \E i \in Idx : i <= an /\ ((InA(alo[i]) /\ ~InB(alo[i])) \/ (InA(ahi[i]) /\ ~InB(ahi[i])))
           \/ \E j \in Idx : j <= bn /\ InA(bhi[j] + 1) /\ ~InB(bhi[j] + 1)

SubsetLemma == (CanonA /\ CanonB) =>
                 /\ (IvSubset /\ InA(p)) => InB(p)
                 /\ ~IvSubset => Escapes

\* PortSem.Compl(a): gap k (0..an) = <<end of interval k + 1, start of interval k+1 - 1>>, kept when not empty
GLo(k) == IF k = 0 THEN 1 ELSE ahi[k] + 1
GHi(k) == IF k = an THEN PMax ELSE alo[k + 1] - 1
\* @type: Int => Bool;
InCompl(q) == \E k \in 0..N : k <= an /\ GLo(k) <= GHi(k) /\ GLo(k) <= q /\ q <= GHi(k)
ComplLemma == CanonA =>
                /\ InCompl(p) <=> ~InA(p)
                \* kept gaps are within 1..PMax and never adjacent to one another (an interval of a lies between)
                /\ \A k \in 0..N : (k <= an /\ GLo(k) <= GHi(k)) => (1 <= GLo(k) /\ GHi(k) <= PMax)
                /\ \A k \in 0..N, m \in 0..N : (k < m /\ m <= an /\ GLo(k) <= GHi(k) /\ GLo(m) <= GHi(m)) => GHi(k) + 1 < GLo(m)

\* PortSem.PIv for lt / gt / range after Clip (an empty interval is dropped) against PortSem.PDen
Min2(a, b) == IF a <= b THEN a ELSE b
Max2(a, b) == IF a >= b THEN a ELSE b
\* @type: (Int, Int, Int) => Bool;
InClipped(q, lo, hi) == Max2(lo, 1) <= Min2(hi, PMax) /\ Max2(lo, 1) <= q /\ q <= Min2(hi, PMax)
OpsLemma == /\ InClipped(p, 1, x - 1) <=> p < x
            /\ InClipped(p, x + 1, PMax) <=> p > x
            /\ InClipped(p, Min2(x, y), Max2(x, y)) <=> (Min2(x, y) <= p /\ p <= Max2(x, y))
            \* eq / neq of one or two operands: points merged by Canon hold exactly the listed ports
            /\ (InClipped(p, x, x) \/ InClipped(p, y, y)) <=> (p = x \/ p = y)

Lemma == SubsetLemma /\ ComplLemma /\ OpsLemma

(* vacuity guard: with adjacent intervals allowed (sorted, disjoint, but not canonical) interval-wise containment is   *)
(* NOT set containment (a = [1,4], b = [1,2],[3,4]) and Apalache must find that                                         *)
Adjacent == (SortedA /\ SortedB) => (~IvSubset => Escapes)
=============================================================================
