----------------------------- MODULE WildLemma -----------------------------
(* SubW (the bit algebra AddrSem uses at full size) IS set containment of    *)
(* wildcards, at the REAL address width 32:                                   *)
(*   Sound:    SubW(b, t) /\ x matches b  =>  x matches t     (for every x)   *)
(*   Complete: ~SubW(b, t)  =>  the witness Wit(b, t) matches b but not t     *)
(* b, t and x are arbitrary 32-bit vectors (Init leaves them free); Apalache  *)
(* decides both symbolically.  MC_AddrSem checks the same by enumeration of   *)
(* every address at W = 3 / 4.                                                *)
(*   apalache-mc check --init=Init --inv=Lemma --length=0 WildLemma.tla       *)
EXTENDS Integers

W == 32
Idx == 1..W

VARIABLES
  \* @type: Int -> Int;
  bb,      \* base of the bottom wildcard
  \* @type: Int -> Int;
  bm,      \* mask of the bottom wildcard (1 = wild)
  \* @type: Int -> Int;
  tb,
  \* @type: Int -> Int;
  tm,
  \* @type: Int -> Int;
  x        \* an address

Bit == {0, 1}
Init == /\ bb \in [Idx -> Bit] /\ bm \in [Idx -> Bit]
        /\ tb \in [Idx -> Bit] /\ tm \in [Idx -> Bit]
        /\ x \in [Idx -> Bit]
Next == UNCHANGED <<bb, bm, tb, tm, x>>

\* AddrSem.MatchesW and AddrSem.SubW, on components
\* @type: (Int -> Int) => Bool;
MatchesB(a) == \A i \in Idx : bm[i] = 1 \/ a[i] = bb[i]
\* @type: (Int -> Int) => Bool;
MatchesT(a) == \A i \in Idx : tm[i] = 1 \/ a[i] = tb[i]
SubW == \A i \in Idx : tm[i] = 1 \/ (bm[i] = 0 /\ bb[i] = tb[i])

\* an address of the bottom that escapes the top wherever that is possible
Wit == [i \in Idx |-> IF bm[i] = 0 THEN bb[i] ELSE 1 - tb[i]]

Lemma == /\ (SubW /\ MatchesB(x)) => MatchesT(x)
         /\ ~SubW => (MatchesB(Wit) /\ ~MatchesT(Wit))
(* vacuity guard: containment decided on the masks alone is wrong *)
MasksOnly == (\A i \in Idx : tm[i] = 1 \/ bm[i] = 0) => (MatchesB(x) => MatchesT(x))
=============================================================================
