----------------------------- MODULE LimbLemma -----------------------------
(* The limb arithmetic of Reseq.tla at the REAL base (65536) equals integer *)
(* arithmetic for every pair of limb numbers with -4 <= hi <= 65540 - the    *)
(* range the trace modules work in (negative arguments, values above 2^32).  *)
(* Checked symbolically by Apalache (no enumeration):                        *)
(*   apalache-mc check --init=Init --inv=Lemma --length=0 LimbLemma.tla      *)
(* MC_Reseq checks the same lemma by enumeration at base 4.                  *)
EXTENDS Integers

B == 65536

VARIABLES
  \* @type: Int;
  ah,
  \* @type: Int;
  al,
  \* @type: Int;
  bh,
  \* @type: Int;
  bl

Val(h, l) == h * B + l
\* the definitions of Reseq.tla, on components
NrmH(h, l) == h + (l \div B)
NrmL(h, l) == l % B
AddH == NrmH(ah + bh, al + bl)
AddLo == NrmL(ah + bh, al + bl)
Leq == ah < bh \/ (ah = bh /\ al <= bl)

Init == /\ ah \in -4..65540 /\ bh \in -4..65540
        /\ al \in 0..(B - 1) /\ bl \in 0..(B - 1)
Next == UNCHANGED <<ah, al, bh, bl>>

Lemma == /\ Val(AddH, AddLo) = Val(ah, al) + Val(bh, bl)
         /\ AddLo \in 0..(B - 1)
         /\ (Leq <=> Val(ah, al) <= Val(bh, bl))
(* vacuity guard: without the carry the lemma is false and Apalache must say so *)
NoCarry == Val(ah + bh, (al + bl) % B) = Val(ah, al) + Val(bh, bl)
=============================================================================
