------------------------------ MODULE AddrSem ------------------------------
(***************************************************************************)
(* Meaning of IPv4 address expressions of Cisco ACLs.                      *)
(*                                                                         *)
(* A wildcard  w = [base, mask]  (mask bit 1 = "don't care") denotes       *)
(*   { a : a AND NOT mask = base AND NOT mask }.                           *)
(* A prefix    p = [bits, len]   denotes the addresses whose first len     *)
(* bits equal those of p.bits.                                             *)
(* A group denotes the union of its members.                               *)
(*                                                                         *)
(* Two families of operators:                                              *)
(*  - enumerative (Members, PfxMembers, ...): ground truth, usable only    *)
(*    at small W;                                                          *)
(*  - symbolic (SubW, PrefixDecomp, Cover, PfxCovered): bit algebra that   *)
(*    works at W = 32.                                                     *)
(* MC_AddrSem proves, for every input of the small instance, that the      *)
(* symbolic operators agree with the enumerative ones.                     *)
(***************************************************************************)
EXTENDS Bits

CONSTANT W      \* address width in bits (32 for IPv4, 3..4 when model checking)

Addr == BitVecs(W)
Wild == [base : Addr, mask : Addr]
Prefix == {p \in [bits : Addr, len : 0..W] : \A i \in (p.len + 1)..W : p.bits[i] = 0}

Norm(w) == [base |-> BAnd(w.base, BNot(w.mask)), mask |-> w.mask]
IsNorm(w) == w = Norm(w)

---------------------------------------------------------------------------
(* Enumerative semantics (small W only)                                    *)

MatchesW(w, a) == \A i \in 1..W : w.mask[i] = 1 \/ a[i] = w.base[i]
Members(w) == {a \in Addr : MatchesW(w, a)}

MatchesP(p, a) == \A i \in 1..p.len : a[i] = p.bits[i]
PfxMembers(p) == {a \in Addr : MatchesP(p, a)}

UnionMembers(ws) == UNION {Members(w) : w \in ws}          \* set of wildcards
UnionPfx(ps) == UNION {PfxMembers(p) : p \in ps}            \* set of prefixes

---------------------------------------------------------------------------
(* Symbolic semantics                                                      *)

(* b is contained in t (both wildcards, any base bits under the mask).     *)
SubW(b, t) == \A i \in 1..W : t.mask[i] = 1 \/ (b.mask[i] = 0 /\ b.base[i] = t.base[i])

(* the same for prefixes                                                   *)
SubP(b, t) == /\ t.len <= b.len
              /\ \A i \in 1..t.len : b.bits[i] = t.bits[i]

WildOfPfx(p) == [base |-> p.bits, mask |-> [i \in 1..W |-> IF i > p.len THEN 1 ELSE 0]]
PfxOfWild(w) == [bits |-> Norm(w).base, len |-> W - LowRun(w.mask)]  \* only if IsContig(w.mask)

(* Length of every prefix a wildcard decomposes into.                      *)
DecompLen(w) == W - LowRun(w.mask)

(* The prefixes whose union is exactly the wildcard: one per assignment of *)
(* the non-contiguous wildcard bits, all of length W - LowRun.             *)
PrefixDecomp(w) ==
  LET L  == DecompLen(w)
      nc == NcIdx(w.mask)
      nb == Norm(w).base
  IN  { [bits |-> [i \in 1..W |-> IF i \in nc THEN f[i] ELSE IF i <= L THEN nb[i] ELSE 0],
         len  |-> L] : f \in [nc -> Bit] }

(* The same set characterised without enumeration (cheap at W = 32): a     *)
(* sequence of prefixes is a decomposition of w iff it has 2^k distinct    *)
(* elements of length L that agree with the base outside the nc bits.      *)
IsDecompOf(ps, w) ==
  LET L  == DecompLen(w)
      nc == NcIdx(w.mask)
      nb == Norm(w).base
  IN  /\ Len(ps) = Pow2(Cardinality(nc))
      /\ \A i \in 1..Len(ps) : \A j \in 1..Len(ps) : i # j => ps[i] # ps[j]
      /\ \A k \in 1..Len(ps) :
            /\ ps[k].len = L
            /\ \A i \in 1..W : i \notin nc => ps[k].bits[i] = (IF i <= L THEN nb[i] ELSE 0)

(* Single network <=> contiguous mask.                                     *)
SingleNet(w) == IF IsContig(w.mask) THEN <<PfxOfWild(w)>> ELSE <<>>

(* The relation the library documents for lists of networks: every bottom  *)
(* inside some single top, both non-empty.                                 *)
Cover(tops, bottoms) ==
  /\ tops # {} /\ bottoms # {}
  /\ \A b \in bottoms : \E t \in tops : SubP(b, t)

(* Exact containment of a prefix in a union of prefixes, without           *)
(* enumerating addresses: p is covered iff one element covers it, or both  *)
(* halves are covered.                                                     *)
RECURSIVE PfxCovered(_, _)
PfxCovered(p, ps) ==
  \/ \E t \in ps : SubP(p, t)
  \/ /\ p.len < W
     /\ \E t \in ps : SubP(t, p)         \* otherwise no finer element can help
     /\ PfxCovered([bits |-> p.bits, len |-> p.len + 1], ps)
     /\ PfxCovered([bits |-> [p.bits EXCEPT ![p.len + 1] = 1], len |-> p.len + 1], ps)

SameUnion(ps, qs) == /\ \A p \in ps : PfxCovered(p, qs)
                     /\ \A q \in qs : PfxCovered(q, ps)

(* Order used for "sorted" results: by network address, then by length.    *)
PfxLt(p, q) == \/ LexLt(p.bits, q.bits)
               \/ p.bits = q.bits /\ p.len < q.len
=============================================================================
