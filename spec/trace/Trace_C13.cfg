CONSTANT W = 32
SPECIFICATION Spec
POSTCONDITION Post
CHECK_DEADLOCK FALSE
