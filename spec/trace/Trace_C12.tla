------------------------------ MODULE Trace_C12 ------------------------------
(* Constructions of Acl / AceGroup / AddrGroup from text with good,        *)
(* ignorable, fatal and bad body lines.  The specification classifies each *)
(* body line from its tokens and accounts for every one of them.           *)
EXTENDS Lines, AceSem, Json, IOUtils, FiniteSets

TraceLog == ndJsonDeserialize(IOEnv.TRACE_FILE)
VARIABLES l
Fail(e, c) == <<[tid |-> e.tid, i |-> e.i, clause |-> c]>>
Chk(cond, e, c) == IF cond THEN <<>> ELSE Fail(e, c)
NcLimit == 16

IsRemarkLine(toks) == (Len(toks) >= 1 /\ IsW(toks[1], "remark")) \/ (Len(toks) >= 2 /\ toks[1].t = "n" /\ IsW(toks[2], "remark"))
RemarkOK(toks) == LET t == IF toks[1].t = "n" THEN Tail(toks) ELSE toks IN Len(t) >= 2
LineM(e, toks) ==
  IF IsRemarkLine(toks)
  THEN LET hs == toks[1].t = "n"  t == IF hs THEN Tail(toks) ELSE toks
       IN <<"remark", IF hs THEN <<toks[1].h, toks[1].n>> ELSE <<0, 0>>, [k \in 1..(Len(t) - 1) |-> t[k + 1].s]>>
  ELSE LET a == ParseAce(e.plat, 0, toks) IN IF a.ok THEN <<"ace", Meaning(a), a.seq, a.logs>> ELSE <<"bad">>
MemberM(e, toks) == LET a == ParseMember(e.plat, toks) IN IF a.k = "bad" THEN <<"bad">> ELSE <<"member", SeqOf(toks), AddrMeaning(a)>>
OverLimit(a) == a.k = "wild" /\ Cardinality(NcIdx(a.w.mask)) > NcLimit

KindOf(e, toks) ==
  IF toks = <<>> THEN "blank"
  ELSE IF toks[1].t = "w" /\ toks[1].s \in {"statistics", "description", "ignore"} /\ Len(toks) >= 2 THEN "ignorable"
  ELSE IF e.cls = "AddrGroup"
       THEN (IF MemberM(e, toks) = <<"bad">> THEN "invalid"
             ELSE IF OverLimit(ParseMember(e.plat, toks)) THEN "fatal" ELSE "valid")
       ELSE IF IsRemarkLine(toks) THEN (IF RemarkOK(toks) THEN "valid" ELSE "invalid")
       ELSE LET a == ParseAce(e.plat, 0, toks) IN
            IF ~a.ok THEN "invalid"
            ELSE IF OverLimit(a.src) \/ OverLimit(a.dst) THEN "fatal" ELSE "valid"
Kinds_(e) == LET nb == SelectSeq(e.lines, LAMBDA x : x.toks # <<>>) IN [k \in 1..Len(nb) |-> KindOf(e, nb[k].toks)]
NonBlank(e) == SelectSeq(e.lines, LAMBDA x : x.toks # <<>>)

(* items must contain the valid lines' meanings, in order (greedy subsequence match) *)
RECURSIVE Match(_, _, _, _)
Match(want, got, i, j) == IF i > Len(want) THEN TRUE
                          ELSE IF j > Len(got) THEN FALSE
                          ELSE IF want[i] = got[j] THEN Match(want, got, i + 1, j + 1) ELSE Match(want, got, i, j + 1)

Clauses(e) ==
  LET nb == NonBlank(e)
      ks == Kinds_(e)
      pred == IF e.cls = "AddrGroup" THEN BuildGroup(ks) ELSE BuildAcl(ks)
      M(t) == IF e.cls = "AddrGroup" THEN MemberM(e, t) ELSE LineM(e, t)
      validIdx == {k \in 1..Len(nb) : ks[k] = "valid"}
      wantM == [k \in 1..Cardinality(validIdx) |-> M(nb[CHOOSE i \in validIdx : Cardinality({j \in validIdx : j <= i}) = k].toks)]
      gotM == [k \in 1..Len(e.items) |-> M(e.items[k])]
      badIdx == {k \in 1..Len(nb) : ks[k] \in {"invalid"} \cup (IF e.cls = "AddrGroup" THEN {"fatal"} ELSE {})}
      unreported == Cardinality({k \in badIdx : ~nb[k].reported})
      extras == Len(e.items) - Cardinality(validIdx)
  IN
  IF e.exc # ""
  THEN Chk(~pred.ok, e, "C12.construction-failed-although-no-line-requires-it")
       \o Chk(e.exc \in {"ValueError", "NetmaskValueError", "AddressValueError"}, e, "C12.exception-class")
  ELSE (IF ~pred.ok /\ e.cls # "AddrGroup" THEN Fail(e, "C12.over-limit-wildcard-accepted-silently") ELSE <<>>)
       \o Chk(Match(wantM, gotM, 1, 1), e, "C12.valid-line-dropped-or-out-of-order")
       \o Chk(extras >= 0 /\ extras <= Cardinality(badIdx), e, "C12.item-without-a-line")
       \o Chk(unreported <= (IF extras > 0 THEN extras ELSE 0), e, "C12.invalid-line-neither-item-nor-reported")
       \o Chk(\A k \in 1..Len(nb) : ks[k] = "ignorable" => ~(\E j \in 1..Len(e.items) : e.items[j] = nb[k].toks), e, "C12.ignorable-line-became-an-item")
       \o Chk(e.header_ok, e, "C12.header-lost")

Report(cs) == IF cs = <<>> THEN TRUE ELSE PrintT(ToJson([verdicts |-> cs]))
Init == l = 1
Next == l <= Len(TraceLog) /\ Report(Clauses(TraceLog[l])) /\ l' = l + 1
Spec == Init /\ [][Next]_l
Post_ == PrintT(ToJson([consumed |-> TLCGet("stats").diameter - 1, total |-> Len(TraceLog)]))
=============================================================================
