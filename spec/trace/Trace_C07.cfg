CONSTANT W = 32
CONSTANT PMax = 65535
CONSTANT RefOf <- RefTok
SPECIFICATION Spec
POSTCONDITION Post_
CHECK_DEADLOCK FALSE
