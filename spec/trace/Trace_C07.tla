------------------------------ MODULE Trace_C07 ------------------------------
(* Results of cisco_acl.acls(config, names=...) / addrgroups(config) on     *)
(* whole configurations, judged against Config.Extract.  The configuration *)
(* arrives as raw structure (section head tokens + body line tokens); the  *)
(* specification classifies the sections itself.                           *)
EXTENDS Config, AceSem, Json, IOUtils

TraceLog == ndJsonDeserialize(IOEnv.TRACE_FILE)
VARIABLES l
Fail(e, c) == <<[tid |-> e.tid, i |-> e.i, clause |-> c]>>
Chk(cond, e, c) == IF cond THEN <<>> ELSE Fail(e, c)

RefTok(line) == IF Len(line) = 2 /\ IsW(line[1], "group-object") THEN line[2].s ELSE ""      \* IOS: group-object NAME
HeadKind(plat, h) ==
  CASE Len(h) >= 3 /\ IsW(h[1], "ip") /\ IsW(h[2], "access-list") -> "acl"
    [] plat = "ios" /\ Len(h) = 3 /\ IsW(h[1], "object-group") /\ IsW(h[2], "network") -> "group"
    [] plat = "nxos" /\ Len(h) = 4 /\ IsW(h[1], "object-group") /\ IsW(h[2], "ip") /\ IsW(h[3], "address") -> "group"
    [] Len(h) >= 2 /\ IsW(h[1], "interface") -> "intf"
    [] OTHER -> "noise"
AclTyp(plat, h) == IF plat = "ios" /\ Len(h) = 4 /\ h[3].s \in {"extended", "standard"} THEN h[3].s ELSE "extended"
IsBind(t) == Len(t) = 4 /\ IsW(t[1], "ip") /\ IsW(t[2], "access-group") /\ t[4].s \in {"in", "out"}
BindsOf(body) == LET bs == SelectSeq(body, IsBind) IN [k \in 1..Len(bs) |-> <<bs[k][3].s, bs[k][4].s>>]
Sec(plat, x) ==
  LET k == HeadKind(plat, x.head) IN
  [kind |-> k,
   name |-> IF k \in {"acl", "group"} THEN x.head[Len(x.head)].s ELSE x.hs,
   typ |-> IF k = "acl" THEN AclTyp(plat, x.head) ELSE "",
   body |-> x.body,
   binds |-> IF k = "intf" THEN BindsOf(x.body) ELSE <<>>]
Cfg(e) == [k \in 1..Len(e.cfg) |-> Sec(e.plat, e.cfg[k])]

IsRemarkLine(toks) == (Len(toks) >= 1 /\ IsW(toks[1], "remark")) \/ (Len(toks) >= 2 /\ toks[1].t = "n" /\ IsW(toks[2], "remark"))
LineM(e, toks) ==
  IF IsRemarkLine(toks)
  THEN LET hs == toks[1].t = "n"  t == IF hs THEN Tail(toks) ELSE toks
       IN <<"remark", IF hs THEN <<toks[1].h, toks[1].n>> ELSE <<0, 0>>, [k \in 1..(Len(t) - 1) |-> t[k + 1].s]>>
  ELSE LET a == ParseAce(e.plat, e.vmajor, toks) IN IF a.ok THEN <<"ace", Meaning(a), a.seq, a.logs, a.typ>> ELSE <<"bad">>
GroupOf(e, toks, side) == LET a == ParseAce(e.plat, e.vmajor, toks) IN
                          IF a.ok /\ ~IsRemarkLine(toks) THEN (IF side = "s" THEN (IF a.src.k = "group" THEN a.src.name ELSE "") ELSE (IF a.dst.k = "group" THEN a.dst.name ELSE ""))
                          ELSE ""
MemWilds(e, cfg, g) == LET ms == MembersFor(cfg, g) IN [k \in 1..Len(ms) |-> ParseMember(e.plat, ms[k]).w]
NoDup(s) == Cardinality(SeqToSet(s)) = Len(s)

AclClauses(e, cfg, want, got, k) ==
  LET w == want[k]  g == got[k] IN
     Chk(g.name = w.name, e, "C07.acl-name")
  \o Chk(g.typ = w.typ, e, "C07.acl-type")
  \o Chk(SeqToSet(g.input) = w.inp /\ NoDup(g.input), e, "C07.inbound-interfaces")
  \o Chk(SeqToSet(g.output) = w.out /\ NoDup(g.output), e, "C07.outbound-interfaces")
  \o Chk(Len(g.leaves) = Len(w.body), e, "C07.entries-lost-or-added")
  \o (IF Len(g.leaves) # Len(w.body) THEN <<>> ELSE
      Chk(\A j \in 1..Len(w.body) : LineM(e, g.leaves[j].line) = LineM(e, w.body[j]) /\ LineM(e, w.body[j]) # <<"bad">>, e, "C07.entries-differ-or-out-of-order")
      \o Chk(\A j \in 1..Len(w.body) :
               /\ (GroupOf(e, w.body[j], "s") # "" => g.leaves[j].srcmem = MemWilds(e, cfg, GroupOf(e, w.body[j], "s")))
               /\ (GroupOf(e, w.body[j], "d") # "" => g.leaves[j].dstmem = MemWilds(e, cfg, GroupOf(e, w.body[j], "d")))
               /\ (GroupOf(e, w.body[j], "s") = "" => g.leaves[j].srcmem = <<>>)
               /\ (GroupOf(e, w.body[j], "d") = "" => g.leaves[j].dstmem = <<>>), e, "C07.group-members"))
RECURSIVE AllAcl(_, _, _, _, _)
AllAcl(e, cfg, want, got, k) == IF k > Len(want) THEN <<>> ELSE AclClauses(e, cfg, want, got, k) \o AllAcl(e, cfg, want, got, k + 1)

Clauses(e) ==
  LET cfg == Cfg(e) IN
  CASE e.act = "Acls" ->
         LET want == Extract(cfg, SeqToSet(e.filter)) IN
         Chk(e.exc = "", e, "C07.acls-raised")
         \o (IF e.exc # "" THEN <<>> ELSE
             Chk(Len(e.got) = Len(want), e, "C07.wrong-number-of-access-lists")
             \o (IF Len(e.got) = Len(want) THEN AllAcl(e, cfg, want, e.got, 1) ELSE <<>>))
    [] e.act = "AddrGroups" ->
         LET gs == SelectSeq(cfg, LAMBDA s : s.kind = "group") IN
         Chk(e.exc = "", e, "C07.addrgroups-raised")
         \o (IF e.exc # "" THEN <<>> ELSE
             Chk(Len(e.got) = Len(gs) /\ \A k \in 1..Len(gs) :
                   /\ e.got[k].name = gs[k].name
                   /\ Len(e.got[k].members) = Len(gs[k].body)
                   /\ \A j \in 1..Len(gs[k].body) :
                         IF RefTok(gs[k].body[j]) # "" THEN e.got[k].members[j].ref = RefTok(gs[k].body[j])
                         ELSE e.got[k].members[j].ref = "" /\ Norm(e.got[k].members[j].w) = ParseMember(e.plat, gs[k].body[j]).w, e, "C07.address-groups"))
    [] OTHER -> Fail(e, "machinery.unknown-action")

Report(cs) == IF cs = <<>> THEN TRUE ELSE PrintT(ToJson([verdicts |-> cs]))
Init == l = 1
Next == l <= Len(TraceLog) /\ Report(Clauses(TraceLog[l])) /\ l' = l + 1
Spec == Init /\ [][Next]_l
Post_ == PrintT(ToJson([consumed |-> TLCGet("stats").diameter - 1, total |-> Len(TraceLog)]))
=============================================================================
