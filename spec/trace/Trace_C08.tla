------------------------------ MODULE Trace_C08 ------------------------------
(* Recorded histories of real Port objects and codec calls, judged at      *)
(* PMax = 65535 with interval arithmetic.  Total verdicts (see Trace_C05). *)
EXTENDS PortObj, Json, IOUtils

TraceLog == ndJsonDeserialize(IOEnv.TRACE_FILE)

VARIABLES l, pre           \* pre = observed state after the previous event of this trace
vars == <<l, pre>>

NoObs == [op |-> "", items |-> <<>>, ports |-> <<>>, sport |-> <<>>, line |-> ""]

Fail(e, c) == <<[tid |-> e.tid, i |-> e.i, clause |-> c]>>
Chk(cond, e, c) == IF cond THEN <<>> ELSE Fail(e, c)

InRange(xs) == \A k \in 1..Len(xs) : xs[k] \in 1..PMax

(* what the object shows must be one consistent expression denoting `den` *)
ShowsDen(o, den, e, tag) ==
     Chk(Canon(o.ports) = den, e, "C08." \o tag \o ".ports-set")
  \o Chk(Decode(o.sport) = den, e, "C08." \o tag \o ".range-string-set")
  \o Chk(ArityOK(o.op, o.items) /\ PIv(o.op, o.items) = den, e, "C08." \o tag \o ".items-view")

Clauses(e) ==
  CASE e.act = "New" ->
         LET p == NewF(e.op, e.xs) IN
         Chk(p.ok = (e.exc = ""), e, "C08.new.accept")
         \o (IF p.ok /\ e.exc = "" THEN ShowsDen(e.obs, p.st.ports, e, "new") \o Chk(e.obs.op = e.op, e, "C08.new.operator") ELSE <<>>)
    [] e.act = "SetItems" ->
         LET p == SetItemsF([op |-> pre.op, items |-> pre.items, ports |-> Canon(pre.ports), sport |-> Canon(pre.sport)], e.xs) IN
         Chk(p.ok = (e.exc = ""), e, "C08.setitems.accept")
         \o (IF p.ok /\ e.exc = "" THEN ShowsDen(e.obs, p.st.ports, e, "setitems") \o Chk(e.obs.op = pre.op, e, "C08.setitems.operator")
             ELSE Chk(e.obs = pre, e, "C08.setitems.refusal-changed-object"))
    [] e.act = "SetLine" ->     \* port.line = "<op> <xs>" on the live object
         LET p == SetLineF([op |-> pre.op, items |-> pre.items, ports |-> Canon(pre.ports), sport |-> Canon(pre.sport)], e.op, e.xs) IN
         Chk(p.ok = (e.exc = ""), e, "C08.setline.accept")
         \o (IF p.ok /\ e.exc = "" THEN ShowsDen(e.obs, p.st.ports, e, "setline") \o Chk(e.obs.op = e.op, e, "C08.setline.operator") ELSE <<>>)
    [] e.act \in {"WriteBackItems", "WriteBackPorts", "WriteBackSport"} ->
         IF e.exc = ""
         THEN Chk(e.obs = pre, e, "C08.writeback-changed-object." \o e.act)
         ELSE Chk(e.act # "WriteBackItems" /\ Canon(pre.ports) = <<>>, e, "C08.writeback-refused." \o e.act)
              \o Chk(e.obs = pre, e, "C08.writeback-refusal-changed-object")
    [] e.act = "Encode" ->     \* helpers.ports_to_string(list) ; e.xs = input as runs, e.out = output as runs
         Chk(e.exc = "", e, "C08.encode.raised") \o Chk(Decode(e.out) = Canon(e.xs), e, "C08.encode.set")
    [] e.act = "Decode" ->     \* helpers.string_to_ports(str)
         Chk(e.exc = "", e, "C08.decode.raised") \o Chk(Canon(e.out) = Canon(e.xs), e, "C08.decode.set")
    [] OTHER -> Fail(e, "machinery.unknown-action")

Report(cs) == IF cs = <<>> THEN TRUE ELSE PrintT(ToJson([verdicts |-> cs]))

Init == l = 1 /\ pre = NoObs
Next == /\ l <= Len(TraceLog)
        /\ LET e == TraceLog[l] IN
             /\ Report(Clauses(e))
             /\ pre' = IF e.act \in {"Encode", "Decode"} THEN pre ELSE e.obs
        /\ l' = l + 1
Spec == Init /\ [][Next]_vars
Post == PrintT(ToJson([consumed |-> TLCGet("stats").diameter - 1, total |-> Len(TraceLog)]))
=============================================================================
