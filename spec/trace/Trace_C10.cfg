CONSTANT B = 65536
CONSTANT MaxSeq <- MaxSeqReal
SPECIFICATION Spec
POSTCONDITION Post_
CHECK_DEADLOCK FALSE
