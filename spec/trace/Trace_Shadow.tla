----------------------------- MODULE Trace_Shadow -----------------------------
(* Answers of Ace.shadow_of(other, skip) for all four skip subsets, judged *)
(* at full size (W = 32, ports 1..65535).  The entries' meaning is parsed  *)
(* by the specification from the INPUT tokens.  Serves C03 (soundness,     *)
(* monotonicity in skip) and C11 (exactness on group-free entries).        *)
EXTENDS AceSem, Json, IOUtils

TraceLog == ndJsonDeserialize(IOEnv.TRACE_FILE)
VARIABLES l
Fail(e, c) == <<[tid |-> e.tid, i |-> e.i, clause |-> c]>>
Chk(cond, e, c) == IF cond THEN <<>> ELSE Fail(e, c)

MemW(ms) == [i \in 1..Len(ms) |-> ParseAddr(ms[i]).w]
MemOK(ms) == \A i \in 1..Len(ms) : ParseAddr(ms[i]).k = "wild"
Ent(plat, vmajor, x) == Entry(ParseAce(plat, vmajor, x.toks), MemW(x.smem), MemW(x.dmem))
EntOK(plat, vmajor, x) == ParseAce(plat, vmajor, x.toks).ok /\ MemOK(x.smem) /\ MemOK(x.dmem)

(* rets = answers for skip = {}, {addrgroup}, {nc_wildcard}, {addrgroup, nc_wildcard}, and the last one
   again with the list given in the other order *)
SkipOf(k) == CASE k = 1 -> {} [] k = 2 -> {"addrgroup"} [] k = 3 -> {"nc_wildcard"} [] OTHER -> {"addrgroup", "nc_wildcard"}
NonEmptyPorts(x) == ~PortEmpty(x.a.sp) /\ ~PortEmpty(x.a.dp)

Clauses(e) ==
  IF ~(EntOK(e.plat, e.vmajor, e.b) /\ EntOK(e.plat, e.vmajor, e.t)) THEN Fail(e, "machinery.generated-entry-not-in-grammar")
  ELSE IF e.exc = "Build" THEN Fail(e, "C01.valid-entry-rejected")
  ELSE
  LET b == Ent(e.plat, e.vmajor, e.b)
      t == Ent(e.plat, e.vmajor, e.t)
      truth == ShadowSym(b, t)
      c11dom == ~HasGroup(b) /\ ~HasGroup(t) /\ NonEmptyPorts(b) /\ NonEmptyPorts(t)
  IN  IF e.exc # "" THEN (IF c11dom THEN Fail(e, "C11.no-answer-for-group-free-pair") ELSE <<>>)
      ELSE
         Chk(\A k \in 1..5 : e.rets[k] => truth, e, "C03.reported-shadow-not-covered")
      \o Chk(/\ (e.rets[2] => e.rets[1]) /\ (e.rets[3] => e.rets[1])
             /\ (e.rets[4] => (e.rets[2] /\ e.rets[3])) /\ (e.rets[5] => (e.rets[2] /\ e.rets[3])),
             e, "C03.skip-option-turned-false-into-true")
      \o Chk(e.rets[4] = e.rets[5], e, "C03.skip-order-matters")
      \o (IF c11dom
          THEN Chk(\A k \in 1..5 : e.rets[k] = (truth /\ ~SkipHit(b, t, SkipOf(k))), e, "C11.answer-not-exact")
          ELSE <<>>)

Report(cs) == IF cs = <<>> THEN TRUE ELSE PrintT(ToJson([verdicts |-> cs]))
Init == l = 1
Next == l <= Len(TraceLog) /\ Report(Clauses(TraceLog[l])) /\ l' = l + 1
Spec == Init /\ [][Next]_l
Post_ == PrintT(ToJson([consumed |-> TLCGet("stats").diameter - 1, total |-> Len(TraceLog)]))
=============================================================================
