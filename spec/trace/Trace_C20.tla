------------------------------ MODULE Trace_C20 ------------------------------
EXTENDS Outcome, Json, IOUtils, TLC
TraceLog == ndJsonDeserialize(IOEnv.TRACE_FILE)
VARIABLES l
Fail(e, c) == <<[tid |-> e.tid, i |-> e.i, clause |-> c]>>
Chk(cond, e, c) == IF cond THEN <<>> ELSE Fail(e, c)
Clauses(e) ==
     Chk(e.cls \in Classes, e, "machinery.unknown-class")
  \o Chk(e.outcome # "Timeout", e, "C20.call-did-not-finish")
  \o Chk(e.outcome = "Timeout" \/ CallOK(e.outcome), e, "C20.undocumented-exception")
  \o Chk(e.re # "Timeout", e, "C20.reparse-did-not-finish")
  \o Chk(e.re = "Timeout" \/ ReparseOK(e.outcome, e.re), e, "C20.returned-object-renders-text-the-constructor-rejects")
Report(cs) == IF cs = <<>> THEN TRUE ELSE PrintT(ToJson([verdicts |-> cs]))
Init == l = 1
Next == l <= Len(TraceLog) /\ Report(Clauses(TraceLog[l])) /\ l' = l + 1
Spec == Init /\ [][Next]_l
Post_ == PrintT(ToJson([consumed |-> TLCGet("stats").diameter - 1, total |-> Len(TraceLog)]))
=============================================================================
