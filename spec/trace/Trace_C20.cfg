SPECIFICATION Spec
POSTCONDITION Post_
CHECK_DEADLOCK FALSE
