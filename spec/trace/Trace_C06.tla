------------------------------ MODULE Trace_C06 ------------------------------
(***************************************************************************)
(* Rendered text is a fixed point of the parser at every object level.     *)
(* An event is one object built from input text, its rendered text T1 and  *)
(* data D1, the object rebuilt from T1 (T2, D2) and from T2 (T3, D3).      *)
(* Texts are sequences of "parts" [kind, toks] (one per line; kind says    *)
(* which reader of the specification applies).  Checked:                   *)
(*   native input  => T2 = T1 and D2 = D1           (strict fixed point)   *)
(*   always        => T3 = T2 and D3 = D2           (stable from 1st re-   *)
(*                                                   parse on)             *)
(*   always        => meaning(T1) = meaning(input) = meaning(T2), read by  *)
(*                    the specification; T1 is native text                 *)
(***************************************************************************)
EXTENDS AceSem, Json, IOUtils

TraceLog == ndJsonDeserialize(IOEnv.TRACE_FILE)
VARIABLES l
Fail(e, c) == <<[tid |-> e.tid, i |-> e.i, clause |-> c]>>
Chk(cond, e, c) == IF cond THEN <<>> ELSE Fail(e, c)

BadM == <<"bad">>
RemarkM(toks) ==
  LET hasSeq == Len(toks) >= 2 /\ toks[1].t = "n"
      t == IF hasSeq THEN Tail(toks) ELSE toks
  IN  IF Len(t) >= 2 /\ IsW(t[1], "remark") THEN <<"remark", IF hasSeq THEN <<toks[1].h, toks[1].n>> ELSE <<0, 0>>, [k \in 1..(Len(t) - 1) |-> t[k + 1].s]>>
      ELSE BadM
AceM(plat, vmajor, toks) == LET a == ParseAce(plat, vmajor, toks) IN IF a.ok THEN <<"ace", Meaning(a), a.seq, a.logs, a.typ>> ELSE BadM
IsRemarkLine(toks) == (Len(toks) >= 1 /\ IsW(toks[1], "remark")) \/ (Len(toks) >= 2 /\ toks[1].t = "n" /\ IsW(toks[2], "remark"))

PartM(e, p) ==
  CASE p.kind = "Port" -> LET r == ParsePort(PortTable(e.plat, e.vmajor, e.proto), MaxEq(e.plat), p.toks)
                          IN IF p.toks = <<>> THEN <<"port", <<"none">>>> ELSE IF r.ok /\ r.n = Len(p.toks) /\ r.n > 0 THEN <<"port", PortDen(r.pe)>> ELSE BadM
    [] p.kind = "Protocol" -> IF Len(p.toks) = 1 /\ p.toks[1].t = "n" /\ p.toks[1].h = 0 /\ p.toks[1].n <= 255 THEN <<"proto", p.toks[1].n>>
                              ELSE IF Len(p.toks) = 1 /\ p.toks[1].t = "w" /\ Has(ProtoAny, p.toks[1].s) THEN <<"proto", NumOf(ProtoAny, p.toks[1].s)>> ELSE BadM
    [] p.kind = "Option" -> IF AllWords(p.toks) THEN <<"opt", Words(p.toks)>> ELSE BadM
    [] p.kind = "Wildcard" -> IF Len(p.toks) = 2 /\ p.toks[1].t = "ip" /\ p.toks[2].t = "ip" THEN <<"wild", Norm([base |-> p.toks[1].b, mask |-> p.toks[2].b])>> ELSE BadM
    [] p.kind = "Address" -> LET a == ParseAddr(p.toks) IN IF a.k # "bad" /\ KwOK(e.plat, AddrKind(p.toks)) THEN <<"addr", AddrMeaning(a)>> ELSE BadM
    [] p.kind = "AddressAg" -> LET a == ParseMember(e.plat, p.toks) IN IF a.k # "bad" THEN <<"member", SeqOf(p.toks), AddrMeaning(a)>> ELSE BadM
    [] p.kind = "Remark" -> RemarkM(p.toks)
    [] p.kind = "Ace" -> AceM(e.plat, e.vmajor, p.toks)
    [] p.kind = "Line" -> IF IsRemarkLine(p.toks) THEN RemarkM(p.toks) ELSE AceM(e.plat, e.vmajor, p.toks)
    [] p.kind = "AclHeader" ->
         IF Len(p.toks) >= 3 /\ IsW(p.toks[1], "ip") /\ IsW(p.toks[2], "access-list")
         THEN IF e.plat = "ios" /\ Len(p.toks) = 4 /\ p.toks[3].s \in {"extended", "standard"} THEN <<"aclhdr", p.toks[3].s, p.toks[4].s>>
              ELSE IF e.plat = "nxos" /\ Len(p.toks) = 3 THEN <<"aclhdr", "extended", p.toks[3].s>> ELSE BadM
         ELSE BadM
    [] p.kind = "AgHeader" ->
         IF e.plat = "ios" /\ Len(p.toks) = 3 /\ IsW(p.toks[1], "object-group") /\ IsW(p.toks[2], "network") THEN <<"aghdr", p.toks[3].s>>
         ELSE IF e.plat = "nxos" /\ Len(p.toks) = 4 /\ IsW(p.toks[1], "object-group") /\ IsW(p.toks[2], "ip") /\ IsW(p.toks[3], "address") THEN <<"aghdr", p.toks[4].s>>
         ELSE BadM
    [] OTHER -> BadM
MeaningOfText(e, parts) == [k \in 1..Len(parts) |-> PartM(e, parts[k])]
Readable(m) == \A k \in 1..Len(m) : m[k] # BadM

(* native spelling of a part for the platform (only where the class has platform-specific syntax) *)
PartNative(e, p) ==
  CASE p.kind = "Address" -> AddrNative(e.plat, AddrKind(p.toks)) /\ AddrKind(p.toks) # "bare"
    [] p.kind \in {"Ace", "Line"} -> IsRemarkLine(p.toks) \/ NativeAce(e.plat, ParseAce(e.plat, e.vmajor, p.toks))
    [] OTHER -> TRUE

Clauses(e) ==
  LET mIn == MeaningOfText(e, e.inp) IN
  IF ~Readable(mIn) THEN Fail(e, "machinery.generated-text-not-in-grammar")
  ELSE IF e.exc # "" THEN Fail(e, "C06.valid-text-rejected." \o e.cls)
  ELSE LET m1 == MeaningOfText(e, e.t1) IN
       Chk(Readable(m1) /\ m1 = mIn, e, "C06.rendered-text-means-something-else." \o e.cls)
       \o Chk(\A k \in 1..Len(e.t1) : PartNative(e, e.t1[k]), e, "C06.rendered-text-not-native." \o e.cls)
       \o (IF e.re.exc # "" THEN Fail(e, "C06.rendered-text-rejected." \o e.cls)
           ELSE (IF e.native THEN Chk(e.re.same_text, e, "C06.text-not-a-fixed-point." \o e.cls) \o Chk(e.re.same_data, e, "C06.data-not-a-fixed-point." \o e.cls) ELSE <<>>)
                \o Chk(Readable(MeaningOfText(e, e.re.t)) /\ MeaningOfText(e, e.re.t) = mIn, e, "C06.reparsed-object-means-something-else." \o e.cls)
                \o Chk(e.re2.exc = "" /\ e.re2.same_text /\ e.re2.same_data, e, "C06.not-stable-from-first-reparse." \o e.cls))

Report(cs) == IF cs = <<>> THEN TRUE ELSE PrintT(ToJson([verdicts |-> cs]))
Init == l = 1
Next == l <= Len(TraceLog) /\ Report(Clauses(TraceLog[l])) /\ l' = l + 1
Spec == Init /\ [][Next]_l
Post_ == PrintT(ToJson([consumed |-> TLCGet("stats").diameter - 1, total |-> Len(TraceLog)]))
=============================================================================
