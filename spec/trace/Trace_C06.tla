------------------------------ MODULE Trace_C06 ------------------------------
(***************************************************************************)
(* Rendered text is a fixed point of the parser at every object level.     *)
(* An event is one object built from input text, its rendered text T1 and  *)
(* data D1, the object rebuilt from T1 (T2, D2) and from T2 (T3, D3).      *)
(* Texts are sequences of "parts" [kind, toks] (one per line; kind says    *)
(* which reader of the specification applies).  Checked:                   *)
(*   native input  => T2 = T1 and D2 = D1           (strict fixed point)   *)
(*   always        => T3 = T2 and D3 = D2           (stable from 1st re-   *)
(*                                                   parse on)             *)
(*   always        => meaning(T1) = meaning(input) = meaning(T2), read by  *)
(*                    the specification; T1 is native text                 *)
(***************************************************************************)
EXTENDS AceSem, Json, IOUtils

TraceLog == ndJsonDeserialize(IOEnv.TRACE_FILE)
VARIABLES l
Fail(e, c) == <<[tid |-> e.tid, i |-> e.i, clause |-> c]>>
Chk(cond, e, c) == IF cond THEN <<>> ELSE Fail(e, c)

BadM == <<"bad">>
RemarkM(toks) ==
  LET hasSeq == Len(toks) >= 2 /\ toks[1].t = "n"
      t == IF hasSeq THEN Tail(toks) ELSE toks
  IN  IF Len(t) >= 2 /\ IsW(t[1], "remark") THEN <<"remark", IF hasSeq THEN <<toks[1].h, toks[1].n>> ELSE <<0, 0>>, [k \in 1..(Len(t) - 1) |-> t[k + 1].s]>>
      ELSE BadM
AceM(plat, vmajor, toks) == LET a == ParseAce(plat, vmajor, toks) IN IF a.ok THEN <<"ace", Meaning(a), a.seq, a.logs, a.typ>> ELSE BadM
IsRemarkLine(toks) == (Len(toks) >= 1 /\ IsW(toks[1], "remark")) \/ (Len(toks) >= 2 /\ toks[1].t = "n" /\ IsW(toks[2], "remark"))

PartMP(plat, e, p) ==
  CASE p.kind = "Port" -> LET r == ParsePort(PortTable(plat, e.vmajor, e.proto), MaxEq(plat), p.toks)
                          IN IF p.toks = <<>> THEN <<"port", <<"none">>>> ELSE IF r.ok /\ r.n = Len(p.toks) /\ r.n > 0 THEN <<"port", PortDen(r.pe)>> ELSE BadM
    [] p.kind = "Protocol" -> IF Len(p.toks) = 1 /\ p.toks[1].t = "n" /\ p.toks[1].h = 0 /\ p.toks[1].n <= 255 THEN <<"proto", p.toks[1].n>>
                              ELSE IF Len(p.toks) = 1 /\ p.toks[1].t = "w" /\ Has(ProtoAny, p.toks[1].s) THEN <<"proto", NumOf(ProtoAny, p.toks[1].s)>> ELSE BadM
    [] p.kind = "Option" -> IF AllWords(p.toks) THEN <<"opt", Words(p.toks)>> ELSE BadM
    [] p.kind = "Wildcard" -> IF Len(p.toks) = 2 /\ p.toks[1].t = "ip" /\ p.toks[2].t = "ip" THEN <<"wild", Norm([base |-> p.toks[1].b, mask |-> p.toks[2].b])>> ELSE BadM
    [] p.kind = "Address" -> LET a == ParseAddr(p.toks) IN IF a.k # "bad" /\ KwOK(plat, AddrKind(p.toks)) THEN <<"addr", AddrMeaning(a)>> ELSE BadM
    [] p.kind = "AddressAg" -> LET a == ParseMember(plat, p.toks) IN IF a.k # "bad" THEN <<"member", SeqOf(p.toks), AddrMeaning(a)>> ELSE BadM
    [] p.kind = "Remark" -> RemarkM(p.toks)
    [] p.kind = "Ace" -> AceM(plat, e.vmajor, p.toks)
    [] p.kind = "Line" -> IF IsRemarkLine(p.toks) THEN RemarkM(p.toks) ELSE AceM(plat, e.vmajor, p.toks)
    [] p.kind = "AclHeader" ->
         IF Len(p.toks) >= 3 /\ IsW(p.toks[1], "ip") /\ IsW(p.toks[2], "access-list")
         THEN IF plat # "nxos" /\ Len(p.toks) = 4 /\ p.toks[3].s \in {"extended", "standard"} THEN <<"aclhdr", p.toks[3].s, p.toks[4].s>>
              ELSE IF plat = "nxos" /\ Len(p.toks) = 3 THEN <<"aclhdr", "extended", p.toks[3].s>> ELSE BadM
         ELSE BadM
    [] p.kind = "AgHeader" ->
         IF plat # "nxos" /\ Len(p.toks) = 3 /\ IsW(p.toks[1], "object-group") /\ IsW(p.toks[2], "network") THEN <<"aghdr", p.toks[3].s>>
         ELSE IF plat = "nxos" /\ Len(p.toks) = 4 /\ IsW(p.toks[1], "object-group") /\ IsW(p.toks[2], "ip") /\ IsW(p.toks[3], "address") THEN <<"aghdr", p.toks[4].s>>
         ELSE BadM
    [] OTHER -> BadM
PartM(e, p) == PartMP(e.plat, e, p)
MeaningOfTextP(plat, e, parts) == [k \in 1..Len(parts) |-> PartMP(plat, e, parts[k])]
MeaningOfText(e, parts) == MeaningOfTextP(e.plat, e, parts)
Readable(m) == \A k \in 1..Len(m) : m[k] # BadM

(* native spelling of a part for the platform (only where the class has platform-specific syntax) *)
PartNativeP(plat, e, p) ==
  CASE p.kind = "Address" -> AddrNative(plat, AddrKind(p.toks)) /\ AddrKind(p.toks) # "bare"
    [] p.kind \in {"Ace", "Line"} -> IsRemarkLine(p.toks) \/ NativeAce(plat, ParseAce(plat, e.vmajor, p.toks))
    [] OTHER -> TRUE
PartNative(e, p) == PartNativeP(e.plat, e, p)

(* meaning with the member numbers of address groups removed (IOS groups carry none) *)
Unnumbered(m) == [k \in 1..Len(m) |-> IF m[k][1] = "member" THEN <<"member", m[k][3]>> ELSE m[k]]
OtherPlat(p) == IF p = "nxos" THEN "ios" ELSE "nxos"
(* refusals of a conversion on its own (address_ag.py): a nested group member cannot go to NX-OS; a non-contiguous
   wildcard or 0.0.0.0/0 member cannot go to IOS *)
IsAgGroup(p) == p.kind = "AddressAg" /\ Len(StripSeq(p.toks)) = 2 /\ IsW(StripSeq(p.toks)[1], "group-object")
NotForIos(e, p) == p.kind = "AddressAg" /\ LET a == ParseMember(e.plat, p.toks) IN a.k = "wild" /\ (~IsContig(a.w.mask) \/ a.w.mask = Ones(W))
MultiPort(e, p) ==
  \/ p.kind = "Port" /\ LET r == ParsePort(PortTable(e.plat, e.vmajor, e.proto), MaxEq(e.plat), p.toks) IN r.ok /\ r.pe.op \in {"eq", "neq"} /\ Len(r.pe.items) > 1
  \/ p.kind = "Ace" /\ LET a == ParseAce(e.plat, e.vmajor, p.toks) IN
        a.ok /\ ((a.sp.op \in {"eq", "neq"} /\ Len(a.sp.items) > 1) \/ (a.dp.op \in {"eq", "neq"} /\ Len(a.dp.items) > 1))
(* ... and one object cannot become several: an entry / port expression listing several ports cannot go to NX-OS on its own *)
ConvRefusable(e, to) == \E k \in 1..Len(e.inp) : \/ (to = "nxos" /\ (IsAgGroup(e.inp[k]) \/ MultiPort(e, e.inp[k])))
                                                  \/ (to # "nxos" /\ NotForIos(e, e.inp[k]))

(* C02 on single objects: obj.platform = other ; = original ; = other *)
ConvClauses(e) ==
  IF ~e.conv.done THEN <<>>
  ELSE LET to == OtherPlat(e.plat)  mIn == MeaningOfText(e, e.inp) IN
       IF e.conv.exc # ""
       THEN Chk(ConvRefusable(e, to) /\ e.conv.exc = "ValueError", e, "C02.single-object-conversion-refused." \o e.cls)
       ELSE LET m1 == MeaningOfTextP(to, e, e.conv.t1) IN
            Chk(Readable(m1) /\ Unnumbered(m1) = Unnumbered(mIn), e, "C02.single-object-conversion-changed-meaning." \o e.cls)
            \o Chk(\A k \in 1..Len(e.conv.t1) : PartNativeP(to, e, e.conv.t1[k]), e, "C02.single-object-conversion-not-native." \o e.cls)
            \o Chk(e.conv.back_exc = "" /\ Readable(MeaningOfText(e, e.conv.t2)) /\ Unnumbered(MeaningOfText(e, e.conv.t2)) = Unnumbered(mIn), e,
                   "C02.single-object-conversion-back-changed-meaning." \o e.cls)
            \o Chk(~e.native \/ e.conv.there_again_same_text, e, "C02.there-back-there-text-differs." \o e.cls)
            \o Chk(e.conv.same_id /\ e.conv.same_note, e, "C16.single-object-conversion-lost-identifier-or-note." \o e.cls)

(* C16 on single objects: copy() and rebuilding the object from its exported data *)
CopyClauses(e) ==
  IF ~e.cp.done THEN <<>>
  ELSE Chk(e.cp.exc = "", e, "C16.copy-raised." \o e.cls)
       \o (IF e.cp.exc # "" THEN <<>> ELSE
           Chk(~e.native \/ (e.cp.copy_same_text /\ e.cp.copy_same_data), e, "C16.copy-not-equal." \o e.cls)
           \o Chk(~e.native \/ (e.cp.data_same_text /\ e.cp.data_same_data), e, "C16.rebuilt-from-data-not-equal." \o e.cls)
           \o Chk(e.cp.copy_new_id, e, "C16.copy-shares-identifier." \o e.cls)
           \o Chk(e.cp.shared_mutables = 0, e, "C16.copy-shares-mutable-state." \o e.cls)
           \o Chk(e.cp.source_unchanged_after_mutating_copy, e, "C16.mutating-the-copy-changed-the-source." \o e.cls)
           \o Chk(e.cp.copy_keeps_note, e, "C16.copy-lost-note." \o e.cls))

Clauses0(e) ==
  LET mIn == MeaningOfText(e, e.inp) IN
  IF ~Readable(mIn) THEN Fail(e, "machinery.generated-text-not-in-grammar")
  ELSE IF e.exc # "" THEN Fail(e, "C06.valid-text-rejected." \o e.cls)
  ELSE LET m1 == MeaningOfText(e, e.t1) IN
       Chk(Readable(m1) /\ m1 = mIn, e, "C06.rendered-text-means-something-else." \o e.cls)
       \o Chk(\A k \in 1..Len(e.t1) : PartNative(e, e.t1[k]), e, "C06.rendered-text-not-native." \o e.cls)
       \o (IF e.re.exc # "" THEN Fail(e, "C06.rendered-text-rejected." \o e.cls)
           ELSE (IF e.native THEN Chk(e.re.same_text, e, "C06.text-not-a-fixed-point." \o e.cls) \o Chk(e.re.same_data, e, "C06.data-not-a-fixed-point." \o e.cls) ELSE <<>>)
                \o Chk(Readable(MeaningOfText(e, e.re.t)) /\ MeaningOfText(e, e.re.t) = mIn, e, "C06.reparsed-object-means-something-else." \o e.cls)
                \o Chk(e.re2.exc = "" /\ e.re2.same_text /\ e.re2.same_data, e, "C06.not-stable-from-first-reparse." \o e.cls))

Clauses(e) == Clauses0(e) \o (IF e.exc = "" /\ Readable(MeaningOfText(e, e.inp)) THEN ConvClauses(e) \o CopyClauses(e) ELSE <<>>)
Report(cs) == IF cs = <<>> THEN TRUE ELSE PrintT(ToJson([verdicts |-> cs]))
Init == l = 1
Next == l <= Len(TraceLog) /\ Report(Clauses(TraceLog[l])) /\ l' = l + 1
Spec == Init /\ [][Next]_l
Post_ == PrintT(ToJson([consumed |-> TLCGet("stats").diameter - 1, total |-> Len(TraceLog)]))
=============================================================================
