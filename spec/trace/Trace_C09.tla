------------------------------ MODULE Trace_C09 ------------------------------
(* Complete enumeration of the library's name tables and of every name /   *)
(* number round trip through Port, Protocol and the ACE option splitter,   *)
(* judged against Names.tla.                                               *)
EXTENDS Names, Json, IOUtils, TLC

TraceLog == ndJsonDeserialize(IOEnv.TRACE_FILE)
VARIABLES l
Fail(e, c) == <<[tid |-> e.tid, i |-> e.i, clause |-> c]>>
Chk(cond, e, c) == IF cond THEN <<>> ELSE Fail(e, c)

PairSet(ps) == {<<ps[k][1], ps[k][2]>> : k \in 1..Len(ps)}
WordSet(ws) == {ws[k] : k \in 1..Len(ws)}
(* a rendered operand token [isnum, n, w] *)
TokOK(tbl, n, tk) == RenderOK(tbl, n, tk.isnum, tk.n, tk.w)

Clauses(e) ==
  CASE e.act = "Table" ->
         LET tbl == PortTable(e.plat, e.vmajor, e.proto) IN
         Chk(PairSet(e.pairs) = tbl, e, "C09.table-differs-from-cisco")
         \o Chk(\A k \in 1..Len(e.inv) : <<e.inv[k][2], e.inv[k][1]>> \in tbl, e, "C09.inverse-table-wrong-name")
         \o Chk({e.inv[k][1] : k \in 1..Len(e.inv)} = NumsOf(tbl), e, "C09.inverse-table-misses-number")
    [] e.act = "Vocabulary" ->
         Chk(AllPortNames \subseteq WordSet(e.words), e, "C09.name-missing-from-splitter-vocabulary")
         \o Chk(WordSet(e.words) \cap (Reserved \cup TcpFlagWords) = {}, e, "C09.vocabulary-collides-with-keyword")
    [] e.act = "PortName" ->
         LET tbl == PortTable(e.plat, e.vmajor, e.proto) IN
         IF ~Has(tbl, e.name)
         THEN Chk(e.exc = "ValueError", e, "C09.foreign-name-accepted")
         ELSE LET n == NumOf(tbl, e.name) IN
              Chk(e.exc = "", e, "C09.name-rejected")
              \o (IF e.exc # "" THEN <<>> ELSE
                  Chk(e.items = <<n>>, e, "C09.name-wrong-number")
                  \o Chk(e.line_nr = <<[isnum |-> FALSE, n |-> 0, w |-> e.op]>> \o <<[isnum |-> TRUE, n |-> n, w |-> ""]>>, e, "C09.numeric-rendering")
                  \o Chk(Len(e.line_nm) = 2 /\ e.line_nm[1].w = e.op /\ TokOK(tbl, n, e.line_nm[2]), e, "C09.rendered-name-not-for-this-number")
                  \o Chk(e.re_exc = "" /\ e.re_items = <<n>>, e, "C09.rendered-name-not-accepted-back")
                  \o Chk(e.switch_items = <<n>>, e, "C09.switch-changed-number"))
    [] e.act = "PortNum" ->
         LET tbl == PortTable(e.plat, e.vmajor, e.proto) IN
         Chk(e.exc = "", e, "C09.number-rejected")
         \o (IF e.exc # "" THEN <<>> ELSE
             Chk(e.items = <<e.n>>, e, "C09.number-changed")
             \o Chk(Len(e.line_nm) = 2 /\ TokOK(tbl, e.n, e.line_nm[2]), e, "C09.rendered-name-not-for-this-number")
             \o Chk(e.re_exc = "" /\ e.re_items = <<e.n>>, e, "C09.rendered-name-not-accepted-back")
             \o Chk(e.line_nr[2] = [isnum |-> TRUE, n |-> e.n, w |-> ""], e, "C09.numeric-rendering"))
    [] e.act = "Proto" ->
         LET valid == IF e.inp.isnum THEN e.inp.n \in 0..255 ELSE Has(ProtoAny, e.inp.w)
             n == IF e.inp.isnum THEN e.inp.n ELSE NumOf(ProtoAny, e.inp.w)
             tbl == ProtoTable(e.plat)
         IN  IF ~valid THEN Chk(e.exc = "ValueError", e, "C09.invalid-protocol-accepted")
             ELSE Chk(e.exc = "", e, "C09.protocol-rejected")
                  \o (IF e.exc # "" THEN <<>> ELSE
                      Chk(e.number = n, e, "C09.protocol-wrong-number")
                      \o Chk(TokOK(tbl, n, e.line), e, "C09.protocol-rendered-name-not-for-this-number")
                      \o Chk(e.nr = TRUE /\ ~e.has_port => e.line.isnum, e, "C09.protocol-numeric-switch")
                      \o Chk(e.re_exc = "" /\ e.re_number = n, e, "C09.protocol-rendering-not-accepted-back")
                      \o Chk(e.ace_exc = "" /\ e.ace_number = n, e, "C09.protocol-rendering-not-accepted-back-in-an-entry")
                      (* tcp / udp, spelled by name or number, with port expressions: the spelling changes nothing but text *)
                      \o Chk(e.with_ports.done => (e.with_ports.number = n /\ e.with_ports.sp = <<1000>> /\ e.with_ports.dp = <<2000>>), e,
                             "C09.protocol-spelling-changed-the-ports-of-the-entry")
                      \o Chk(e.generated.done => (e.generated.n = 1 /\ e.generated.number = n /\ e.generated.sp = <<1000>> /\ e.generated.dp = <<2000>>), e,
                             "C09.numeric-switch-changed-the-ports-of-a-generated-entry")
                      \o Chk(e.pname = "" \/ (Has(tbl, e.pname) /\ NumOf(tbl, e.pname) = n), e, "C09.protocol-name-attribute"))
    [] e.act = "Split" ->
         LET tbl == PortTable(e.plat, e.vmajor, e.proto) IN
         IF ~Has(tbl, e.name) THEN <<>>
         ELSE Chk(e.exc = "", e, "C09.split-rejected-valid-line")
              \o (IF e.exc # "" THEN <<>> ELSE
                  Chk(e.items = <<NumOf(tbl, e.name)>>, e, "C09.split-port-went-to-options")
                  \o Chk(e.flags = <<"ack">> /\ e.logs = <<"log">>, e, "C09.split-options"))
    [] OTHER -> Fail(e, "machinery.unknown-action")

Report(cs) == IF cs = <<>> THEN TRUE ELSE PrintT(ToJson([verdicts |-> cs]))
Init == l = 1
Next == l <= Len(TraceLog) /\ Report(Clauses(TraceLog[l])) /\ l' = l + 1
Spec == Init /\ [][Next]_l
Post_ == PrintT(ToJson([consumed |-> TLCGet("stats").diameter - 1, total |-> Len(TraceLog)]))
=============================================================================
