CONSTANT W = 32
CONSTANT PMax = 65535
CONSTANT B = 65536
CONSTANT MaxSeq <- MaxSeqReal
CONSTANT FreshId <- FreshReal
SPECIFICATION Spec
POSTCONDITION Post_
CHECK_DEADLOCK FALSE
