------------------------------ MODULE Trace_C13 ------------------------------
(* Containment answers of real Address / AddressAg / AddrGroup objects,    *)
(* judged at W = 32.  The operands' meaning is parsed by the SPECIFICATION *)
(* from the input tokens (not taken from the library).                     *)
EXTENDS AddrObj, Json, IOUtils, TLC

TraceLog == ndJsonDeserialize(IOEnv.TRACE_FILE)
VARIABLES l
Fail(e, c) == <<[tid |-> e.tid, i |-> e.i, clause |-> c]>>
Chk(cond, e, c) == IF cond THEN <<>> ELSE Fail(e, c)

(* operand of an ACE-address object (Address) or of a member object (AddressAg) *)
ParseOne(cls, plat, toks) == IF cls = "Address" THEN ParseAddr(toks) ELSE ParseMember(plat, toks)
MemberWs(cls, plat, ms) == [i \in 1..Len(ms) |-> ParseOne(cls, plat, ms[i]).w]
MembersOK(cls, plat, ms) == \A i \in 1..Len(ms) : ParseOne(cls, plat, ms[i]).k = "wild"
Opd(cls, plat, toks, ms) == Operand(ParseOne(cls, plat, toks), MemberWs(cls, plat, ms))
OpdOK(cls, plat, toks, ms) == ParseOne(cls, plat, toks).k # "bad" /\ MembersOK(cls, plat, ms)

Clauses(e) ==
  CASE e.act = "SubnetOf" ->
         IF ~(OpdOK(e.cls, e.plat, e.btoks, e.bmem) /\ OpdOK(e.cls, e.plat, e.ttoks, e.tmem))
         THEN Fail(e, "machinery.generated-operand-not-in-grammar")
         ELSE LET b == Opd(e.cls, e.plat, e.btoks, e.bmem)
                  t == Opd(e.cls, e.plat, e.ttoks, e.tmem)
              IN  Chk(e.exc = "", e, "C13.subnet_of-raised")
                  \o (IF e.exc = "" THEN Chk(SubnetOfOK(b, t, e.ret), e,
                          IF b.k = "wild" /\ t.k = "wild" THEN "C13.subnet_of-not-exact" ELSE "C13.subnet_of-unsound-with-groups")
                      ELSE <<>>)
    [] e.act = "In" ->
         IF ~(OpdOK("AddressAg", e.plat, e.btoks, <<>>) /\ OpdOK("AddressAg", e.plat, e.ttoks, <<>>))
         THEN Fail(e, "machinery.generated-operand-not-in-grammar")
         ELSE LET a == Opd("AddressAg", e.plat, e.btoks, <<>>)
                  b == Opd("AddressAg", e.plat, e.ttoks, <<>>)
              IN  IF e.exc # ""
                  THEN Chk(InMemberRefusable(a, b) /\ e.exc = "TypeError", e, "C13.in-member-refused")
                  ELSE IF HasSingleNet(a) /\ HasSingleNet(b)
                       THEN Chk(InMemberOK(a, b, e.ret), e, "C13.in-member-not-exact")
                       ELSE Chk(e.ret => SubW(a.w, b.w), e, "C13.in-member-unsound")
    [] e.act = "InGroup" ->
         IF ~(OpdOK("AddressAg", e.plat, e.btoks, <<>>) /\ MembersOK("AddressAg", e.plat, e.tmem))
         THEN Fail(e, "machinery.generated-operand-not-in-grammar")
         ELSE LET a == Opd("AddressAg", e.plat, e.btoks, <<>>)
                  g == [k |-> "group", w |-> ZeroW, name |-> "G", members |-> MemberWs("AddressAg", e.plat, e.tmem)]
              IN  IF e.exc # ""
                  THEN Chk(InGroupRefusable(a, g) /\ e.exc = "TypeError", e, "C13.in-group-refused")
                  ELSE Chk(InGroupOK(a, g, e.ret), e, "C13.in-group-not-exact")
    [] e.act = "Build" ->     \* constructing an operand of the grammar failed
         Fail(e, "C13.valid-operand-rejected")
    [] OTHER -> Fail(e, "machinery.unknown-action")

Report(cs) == IF cs = <<>> THEN TRUE ELSE PrintT(ToJson([verdicts |-> cs]))
Init == l = 1
Next == l <= Len(TraceLog) /\ Report(Clauses(TraceLog[l])) /\ l' = l + 1
Spec == Init /\ [][Next]_l
Post == PrintT(ToJson([consumed |-> TLCGet("stats").diameter - 1, total |-> Len(TraceLog)]))
=============================================================================
