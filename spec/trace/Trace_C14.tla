------------------------------ MODULE Trace_C14 ------------------------------
(* Results of address.collapse / address_ag.collapse judged at W = 32       *)
(* against the guarantee Post of Collapse.tla.                             *)
EXTENDS Collapse, AddrText, Json, IOUtils

TraceLog == ndJsonDeserialize(IOEnv.TRACE_FILE)
VARIABLES l
Fail(e, c) == <<[tid |-> e.tid, i |-> e.i, clause |-> c]>>
Chk(cond, e, c) == IF cond THEN <<>> ELSE Fail(e, c)

ParseOne(cls, plat, toks) == IF cls = "Address" THEN ParseAddr(toks) ELSE ParseMember(plat, toks)
Specs(cls, plat, xs) == [i \in 1..Len(xs) |-> ParseOne(cls, plat, xs[i])]
AllWild(sp) == \A i \in 1..Len(sp) : sp[i].k = "wild"
AllContig(sp) == \A i \in 1..Len(sp) : IsContig(sp[i].w.mask)
Pfxs(sp) == [i \in 1..Len(sp) |-> PfxOfWild(sp[i].w)]

(* named refusal: an IOS address-group member is a subnet with a net mask and cannot express 0.0.0.0/0
   (address_ag.py: "0.0.0.0 0.0.0.0 is denied for platform ios"); a collapse whose result would contain the
   whole address space is therefore refused with a ValueError for that class/platform only *)
Unrepresentable(e, pin) == /\ e.cls = "AddressAg" /\ e.plat = "ios"
                           /\ \E k \in 1..Len(CollapseF(pin)) : CollapseF(pin)[k].len = 0

Clauses(e) ==
  LET inp == Specs(e.cls, e.plat, e.inp) IN
  IF ~AllWild(inp) THEN Fail(e, "machinery.generated-operand-not-in-grammar")
  ELSE IF e.foreign \/ ~AllContig(inp)
  THEN Chk(e.exc = "TypeError", e, "C14.non-contiguous-or-foreign-not-refused")
  ELSE IF Unrepresentable(e, Pfxs(inp))
  THEN Chk(e.exc = "ValueError", e, "C14.unrepresentable-result-not-refused")
  ELSE Chk(e.exc = "", e, "C14.contiguous-input-refused")
       \o (IF e.exc # "" THEN <<>> ELSE
           LET out == Specs(e.cls, e.plat, e.out) IN
           IF ~(AllWild(out) /\ AllContig(out)) THEN Fail(e, "C14.result-not-a-contiguous-address")
           ELSE LET pin == Pfxs(inp)  pout == Pfxs(out) IN
                Chk(SameUnion(SeqSet(pin), SeqSet(pout)), e, "C14.covered-set-changed")
                \o Chk(Len(pout) <= Len(pin), e, "C14.more-elements-than-input")
                \o Chk(IsSorted(pout), e, "C14.not-sorted")
                \o Chk(e.notes_empty, e, "C14.note-kept")
                \o Chk(e.same_kind, e, "C14.class-or-platform-changed"))
                (* equality with CollapseF(pin) is deliberately NOT demanded: the property fixes the covered
                   set, the bound on the length and the order, not which exact cover is returned *)

Report(cs) == IF cs = <<>> THEN TRUE ELSE PrintT(ToJson([verdicts |-> cs]))
Init == l = 1
Next == l <= Len(TraceLog) /\ Report(Clauses(TraceLog[l])) /\ l' = l + 1
Spec == Init /\ [][Next]_l
Post_ == PrintT(ToJson([consumed |-> TLCGet("stats").diameter - 1, total |-> Len(TraceLog)]))
=============================================================================
