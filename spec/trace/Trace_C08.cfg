CONSTANT PMax = 65535
SPECIFICATION Spec
POSTCONDITION Post
CHECK_DEADLOCK FALSE
