------------------------------ MODULE Trace_C05 ------------------------------
(***************************************************************************)
(* Validation of recorded histories of real Wildcard / Address objects     *)
(* against WildcardObj at W = 32.  One event per step; the predicted       *)
(* result of the event's action is computed from the current state with    *)
(* the very functions the model checker explored, compared clause by       *)
(* clause with what the implementation showed, every failing clause is     *)
(* printed, and the run continues from the OBSERVED state (total verdicts).*)
(***************************************************************************)
EXTENDS WildcardObj, Json, IOUtils, TLC

TraceLog == ndJsonDeserialize(IOEnv.TRACE_FILE)

VARIABLES l, st, alive
vars == <<l, st, alive>>

Blank == [w |-> [base |-> Zeros(W), mask |-> Zeros(W)], limit |-> 0, hasMemo |-> FALSE, memo |-> {}]

SeqToSet(s) == {s[i] : i \in 1..Len(s)}

(* net mask (ones then zeros) -> prefix length; W+1 if not a net mask *)
MaskLen(m) == IF IsNetMask(m) THEN HighRun(m) ELSE W + 1

Fail(e, c) == <<[tid |-> e.tid, i |-> e.i, clause |-> c]>>
Chk(cond, e, c) == IF cond THEN <<>> ELSE Fail(e, c)

(* observed list of prefixes == decomposition of w, exactly (no dup) *)
ListIsDecomp(ps, w) ==
  IF Cardinality(NcIdx(w.mask)) <= 10
  THEN Len(ps) = Cardinality(SeqToSet(ps)) /\ SeqToSet(ps) = PrefixDecomp(w)
  ELSE IsDecompOf(ps, w)

Predict(e) ==
  CASE e.act = "New"         -> NewF(e.w, e.limit)
    [] e.act = "SetLine"     -> SetLineF(st, e.w)
    [] e.act = "SetLimit"    -> SetLimitF(st, e.limit)
    [] e.act = "QueryIpnets" -> QueryIpnetsF(st)
    [] e.act = "QueryIpnet"  -> QueryIpnetF(st)
    [] e.act = "QueryLine"   -> QueryLineF(st)
    [] OTHER                 -> [ok |-> TRUE, st |-> st, ret |-> NoRet]

Clauses(e) ==
  LET p == Predict(e) IN
  CASE e.act \in {"New", "SetLine"} ->
         Chk(p.ok = (e.exc = ""), e, IF p.ok THEN "C05.refused-within-limit" ELSE "C05.limit-not-enforced")
         \o Chk(e.exc \in {"", "NetmaskValueError"}, e, "C05.exception-class")
         \o (IF e.exc = "" /\ p.ok
             THEN Chk(e.line = p.st.w, e, "C05.line-after-set")
             ELSE <<>>)
         \o (IF e.exc # "" /\ e.act = "SetLine" /\ alive
             THEN Chk(e.line = st.w, e, "C05.refusal-changed-object")
             ELSE <<>>)
    [] e.act = "SetLimit" ->
         Chk(p.ok = (e.exc = ""), e, "C05.limit-range")
         \o Chk(e.line = st.w, e, "C05.set-limit-changed-line")
    [] e.act = "QueryIpnets" ->
         Chk(ListIsDecomp(e.ret, st.w), e, "C05.ipnets-not-exact-for-current-line")
    [] e.act = "QueryIpnet" ->
         Chk(SeqToSet(e.ret) = p.ret, e, "C05.single-network")
    [] e.act = "QueryLine" ->
         Chk(SeqToSet(e.ret) = p.ret, e, "C05.line-query")
    [] e.act = "AddrNets" ->       \* Address(spelling of e.w).ipnets() / prefixes() on a fresh object
         Chk(e.exc = "", e, "C05.addr-raised")
         \o (IF e.exc = "" THEN Chk(ListIsDecomp(e.ret, e.w), e, "C05.addr-nets-not-exact") ELSE <<>>)
    [] e.act = "AddrSubnets" ->    \* .subnets(): [bits, mask] pairs with NET masks
         Chk(e.exc = "", e, "C05.addr-raised")
         \o (IF e.exc = ""
             THEN Chk(ListIsDecomp([k \in 1..Len(e.ret) |-> [bits |-> e.ret[k].bits, len |-> MaskLen(e.ret[k].mask)]], e.w),
                      e, "C05.addr-subnets-not-exact")
             ELSE <<>>)
    [] OTHER -> Fail(e, "machinery.unknown-action")

Observed(e) ==
  CASE e.act = "New" /\ e.exc = ""     -> [Predict(e).st EXCEPT !.w = e.line, !.limit = e.limit]
    [] e.act = "SetLine" /\ e.exc = "" -> [Predict(e).st EXCEPT !.w = e.line]
    [] e.act = "SetLimit" /\ e.exc = "" -> Predict(e).st
    [] e.act \in {"QueryIpnets"}       -> Predict(e).st
    [] OTHER                           -> st

Report(cs) == IF cs = <<>> THEN TRUE ELSE PrintT(ToJson([verdicts |-> cs]))

Init == l = 1 /\ st = Blank /\ alive = FALSE
Next == /\ l <= Len(TraceLog)
        /\ LET e == TraceLog[l] IN
             /\ Report(Clauses(e))
             /\ st' = Observed(e)
             /\ alive' = IF e.act = "New" THEN e.exc = "" ELSE alive
        /\ l' = l + 1
Spec == Init /\ [][Next]_vars

Post == PrintT(ToJson([consumed |-> TLCGet("stats").diameter - 1, total |-> Len(TraceLog)]))
=============================================================================
