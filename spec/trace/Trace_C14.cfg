CONSTANT W = 32
SPECIFICATION Spec
POSTCONDITION Post_
CHECK_DEADLOCK FALSE
