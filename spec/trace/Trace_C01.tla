------------------------------ MODULE Trace_C01 ------------------------------
(* Parsing an ACE keeps its meaning (C01) and rendered text is a fixed     *)
(* point of the parser (C06, ACE level): every recorded construction of a  *)
(* real Ace is compared field by field with the specification's own        *)
(* reading of the INPUT tokens, and the rendered line is read back by the  *)
(* specification and must mean the same and be native text.                *)
EXTENDS AceSem, Json, IOUtils

TraceLog == ndJsonDeserialize(IOEnv.TRACE_FILE)
VARIABLES l
Fail(e, c) == <<[tid |-> e.tid, i |-> e.i, clause |-> c]>>
Chk(cond, e, c) == IF cond THEN <<>> ELSE Fail(e, c)
SeqToSet(s) == {s[i] : i \in 1..Len(s)}

AddrObsOK(o, a) == IF a.k = "group" THEN o.k = "group" /\ o.name = a.name
                   ELSE o.k = "wild" /\ o.w = Norm(a.w)
NetsOK(nets, a) == a.k = "group" \/ Cardinality(NcIdx(a.w.mask)) > 6
                   \/ (Len(nets) = Cardinality(SeqToSet(nets)) /\ SeqToSet(nets) = PrefixDecomp(a.w))
PortObsOK(o, pe) == IF pe.op = "" THEN o.op = "" /\ o.items = <<>> /\ o.ports = <<>>
                    ELSE o.op = pe.op /\ o.items = pe.items /\ Canon(o.ports) = PIv(pe.op, pe.items)

FieldClauses(e, o, A, tag) ==
     Chk(o.act = A.act, e, tag \o ".action")
  \o Chk(o.proto = A.proto, e, tag \o ".protocol-number")
  \o Chk(AddrObsOK(o.src, A.src), e, tag \o ".source-address")
  \o Chk(AddrObsOK(o.dst, A.dst), e, tag \o ".destination-address")
  \o Chk(NetsOK(o.srcnets, A.src) /\ NetsOK(o.dstnets, A.dst), e, tag \o ".address-networks")
  \o Chk(PortObsOK(o.sp, A.sp), e, tag \o ".source-ports")
  \o Chk(PortObsOK(o.dp, A.dp), e, tag \o ".destination-ports")
  \o Chk(o.flags = A.flags, e, tag \o ".flag-tokens")
  \o Chk(o.logs = A.logs, e, tag \o ".log-keywords")
  \o Chk(o.seq = A.seq, e, tag \o ".sequence")

LineClauses(e, o, A, tag) ==
  LET L == ParseAce(e.plat, e.vmajor, o.line) IN
  IF ~L.ok THEN Fail(e, tag \o ".rendered-line-not-readable")
  ELSE Chk(Meaning(L) = Meaning(A), e, tag \o ".rendered-line-means-something-else")
       \o Chk(L.seq = A.seq /\ L.logs = A.logs /\ L.typ = A.typ, e, tag \o ".rendered-line-lost-number-or-log")
       \o Chk(NativeAce(e.plat, L), e, tag \o ".rendered-line-not-native-for-platform")
       \o Chk(SwitchesRespected(L, e.port_nr, e.protocol_nr), e, tag \o ".numeric-switch-ignored")

Clauses(e) ==
  LET A == ParseAce(e.plat, e.vmajor, e.toks) IN
  IF ~A.ok THEN Fail(e, "machinery.generated-line-not-in-grammar")
  ELSE IF e.exc # "" THEN Fail(e, "C01.valid-line-rejected")
  ELSE FieldClauses(e, e.obs, A, "C01") \o LineClauses(e, e.obs, A, "C01")
       (* C06: the rendered line, parsed again with the same settings, renders the identical text and data,
          when the input was native; from the first re-parse on for foreign spellings *)
       \o (IF e.re.exc # "" THEN Fail(e, "C06.rendered-line-rejected")
           ELSE (IF NativeAce(e.plat, A) /\ ~e.dirty
                 THEN Chk(e.re.line = e.obs.line, e, "C06.text-not-a-fixed-point")
                      \o Chk(e.re.data = e.data, e, "C06.data-not-a-fixed-point")
                 ELSE <<>>)
                \o Chk(e.re2.exc = "" /\ e.re2.line = e.re.line /\ e.re2.data = e.re.data, e, "C06.not-stable-from-first-reparse")
                \o FieldClauses(e, e.re.obs, A, "C06.reparsed"))

Report(cs) == IF cs = <<>> THEN TRUE ELSE PrintT(ToJson([verdicts |-> cs]))
Init == l = 1
Next == l <= Len(TraceLog) /\ Report(Clauses(TraceLog[l])) /\ l' = l + 1
Spec == Init /\ [][Next]_l
Post_ == PrintT(ToJson([consumed |-> TLCGet("stats").diameter - 1, total |-> Len(TraceLog)]))
=============================================================================
