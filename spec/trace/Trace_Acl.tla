------------------------------ MODULE Trace_Acl ------------------------------
(***************************************************************************)
(* Histories of public operations on ONE live Acl object (plus a twin for  *)
(* copy / export-import), validated step by step against AclSem at full    *)
(* size.  Every step: (1) the observed object must be internally           *)
(* consistent (each rendered line, read by the specification, means what   *)
(* the typed fields say, is native for the platform, carries the number);  *)
(* (2) the observed post-state must be the one the operation's function    *)
(* predicts from the observed pre-state.  Clause names carry the property  *)
(* they belong to (C02, C04, C10, C11, C15, C16, C17, C19).                *)
(***************************************************************************)
EXTENDS AclSem, Json, IOUtils

CONSTANTS B, MaxSeq
R == INSTANCE Reseq
MaxSeqReal == <<65535, 65535>>
FreshReal == "*"

TraceLog == ndJsonDeserialize(IOEnv.TRACE_FILE)
VARIABLES l, pre, twin
vars == <<l, pre, twin>>

Fail(e, c) == <<[tid |-> e.tid, i |-> e.i, clause |-> c]>>
Chk(cond, e, c) == IF cond THEN <<>> ELSE Fail(e, c)

---------------------------------------------------------------------------
(* from the observed JSON to the state shape of AclSem *)
FOf(o) == [act |-> o.act, proto |-> o.proto,
           src |-> [k |-> o.src.k, w |-> o.src.w, name |-> o.src.name, mem |-> o.src.mem],
           dst |-> [k |-> o.dst.k, w |-> o.dst.w, name |-> o.dst.name, mem |-> o.dst.mem],
           sp |-> [op |-> o.sp.op, items |-> o.sp.items], dp |-> [op |-> o.dp.op, items |-> o.dp.items],
           flags |-> o.flags, logs |-> o.logs]
LeafOf(x) == [kind |-> x.kind, id |-> x.id, note |-> x.note, seq |-> x.seq,
              f |-> IF x.kind = "ace" THEN FOf(x.f) ELSE NoF, text |-> x.text, rtext |-> x.rtext, heads |-> x.heads, items |-> <<>>]
ItemOf(x) == IF x.kind = "block"
             THEN [kind |-> "block", id |-> x.id, note |-> x.note, seq |-> x.seq, f |-> NoF, text |-> <<>>, rtext |-> x.rtext, heads |-> <<>>,
                   items |-> [k \in 1..Len(x.items) |-> LeafOf(x.items[k])]]
             ELSE LeafOf(x)
ItemsOf(obs) == [k \in 1..Len(obs.items) |-> ItemOf(obs.items[k])]
StateOf(obs) == [plat |-> obs.plat, typ |-> obs.typ, name |-> obs.name, grpBy |-> obs.grp_by, portNr |-> obs.port_nr,
                 protoNr |-> obs.protocol_nr, id |-> obs.id, note |-> obs.note, items |-> ItemsOf(obs)]
Blank == [plat |-> "ios", typ |-> "extended", name |-> "", grpBy |-> "", portNr |-> FALSE, protoNr |-> FALSE, id |-> "", note |-> "",
          items |-> <<>>]

RECURSIVE ObsLeaves(_)
ObsLeaves(xs) == IF xs = <<>> THEN <<>> ELSE (IF Head(xs).kind = "block" THEN Head(xs).items ELSE <<Head(xs)>>) \o ObsLeaves(Tail(xs))

---------------------------------------------------------------------------
(* (1) internal consistency of what the object shows *)
MeaningOfF(f) == [act |-> f.act, proto |-> f.proto, src |-> AddrMeaning(f.src), dst |-> AddrMeaning(f.dst),
                  sp |-> PortDen(f.sp), dp |-> PortDen(f.dp), flags |-> SeqSetW(f.flags)]
PortsShown(o) == (o.op = "" /\ o.ports = <<>>) \/ (o.op # "" /\ Canon(o.ports) = PIv(o.op, o.items))
LeafClauses(e, obs, x) ==
  IF x.kind = "remark"
  THEN LET hasSeq == x.seq # <<0, 0>>
           t == IF hasSeq THEN Tail(x.line) ELSE x.line
       IN  Chk(/\ hasSeq => (x.line[1].t = "n" /\ <<x.line[1].h, x.line[1].n>> = x.seq)
               /\ Len(t) >= 2 /\ IsW(t[1], "remark") /\ Len(t) = Len(x.text) + 1
               /\ \A k \in 1..Len(x.text) : t[k + 1].s = x.text[k], e, "C17.remark-text-inconsistent")
  ELSE LET Lr == ParseAce(obs.plat, obs.vmajor, x.line) IN
       IF ~Lr.ok THEN Fail(e, "C17.rendered-line-not-readable")
       ELSE Chk(Meaning(Lr) = MeaningOfF(FOf(x.f)), e, "C17.rendered-line-disagrees-with-fields")
            \o Chk(Lr.seq = x.seq /\ Lr.logs = x.f.logs, e, "C17.rendered-line-number-or-log-disagrees")
            \o Chk(NativeAce(obs.plat, Lr), e, "C17.rendered-line-not-native-for-platform")
            \o Chk(SwitchesRespected(Lr, obs.port_nr, obs.protocol_nr), e, "C17.numeric-switch-not-applied-to-entry")
            \o Chk(PortsShown(x.f.sp) /\ PortsShown(x.f.dp), e, "C17.port-list-disagrees-with-operator")
            \o Chk(Lr.typ = obs.typ, e, "C17.entry-type-differs-from-acl-type")
RECURSIVE AllLeafClauses(_, _, _)
AllLeafClauses(e, obs, ls) == IF ls = <<>> THEN <<>> ELSE LeafClauses(e, obs, Head(ls)) \o AllLeafClauses(e, obs, Tail(ls))
ConsistencyClauses(e) ==
  IF e.exc # "" /\ e.act = "New" THEN <<>>
  ELSE AllLeafClauses(e, e.obs, ObsLeaves(e.obs.items))
       \o Chk(e.obs.text_is_header_plus_lines, e, "C17.acl-text-is-not-header-plus-entry-lines")
       \o Chk(e.obs.reparse_same_text, e, "C17.rendered-text-does-not-parse-back-to-itself")
(* "Given": the state of an object somebody else built and handed over (recorded executions of the repository's own
   tests: the observation taken just before a recorded call).  Nothing is claimed about it; and when it is not a
   consistent list in the sense above, nothing is claimed about the call made on it either (GivenOk). *)
GivenOk(e) == e.act # "Given" /\ (~e.recorded \/ ConsistencyClauses([e EXCEPT !.obs = e.before]) = <<>>)

---------------------------------------------------------------------------
(* facets of an item list, compared one by one so that a mismatch names what differs *)
Fl(items) == Flatten(items)
Means(items) == [k \in 1..Len(Fl(items)) |-> [kind |-> Fl(items)[k].kind, f |-> Fl(items)[k].f, text |-> Fl(items)[k].text]]
Seqs(items)  == [k \in 1..Len(Fl(items)) |-> Fl(items)[k].seq]
Notes(items) == [k \in 1..Len(Fl(items)) |-> Fl(items)[k].note]
Ids(items)   == [k \in 1..Len(Fl(items)) |-> Fl(items)[k].id]
Struct(items) == [k \in 1..Len(items) |-> IF IsBlock(items[k]) THEN <<"block", items[k].rtext, Len(items[k].items)>> ELSE <<items[k].kind>>]
BlockSeqs(items) == [k \in 1..Len(items) |-> IF IsBlock(items[k]) THEN items[k].seq ELSE <<0, 0>>]
BlockIds(items) == [k \in 1..Len(items) |-> IF IsBlock(items[k]) THEN items[k].id ELSE ""]
BlockNotes(items) == [k \in 1..Len(items) |-> IF IsBlock(items[k]) THEN items[k].note ELSE ""]
SeqSetOf(s) == {s[k] : k \in 1..Len(s)}
(* predicted ids may contain FreshId: any NEW id (not among the old ones, all new ones distinct) matches *)
IdsMatch(pred, obs, old) ==
  /\ Len(pred) = Len(obs)
  /\ \A k \in 1..Len(pred) : IF pred[k] = FreshId THEN obs[k] \notin old ELSE obs[k] = pred[k]
  /\ \A i \in 1..Len(obs) : \A j \in 1..Len(obs) : (i # j /\ obs[i] # "") => obs[i] # obs[j]
AllIds(st) == SeqSetOf(Ids(st.items)) \cup SeqSetOf(BlockIds(st.items)) \cup {st.id}

(* standard comparison of a predicted item list with the observed one; tag = property owning the meaning *)
Compare(e, pred, obs, old, tag) ==
     Chk(Struct(obs) = Struct(pred), e, tag \o ".structure")
  \o Chk(Means(obs) = Means(pred), e, tag \o ".entries-or-meaning")
  \o Chk(Seqs(obs) = Seqs(pred), e, tag \o ".sequence-numbers")
  \o Chk(Notes(obs) = Notes(pred), e, "C16.note-lost")
  \o Chk(IdsMatch(Ids(pred), Ids(obs), old), e, "C16.identifier-changed")

Regroup(st, items) == IF st.grpBy = "" THEN items ELSE GroupItems(items, st.grpBy)
(* a block list that regrouping would rebuild as it is (not the case e.g. after the unnamed leading block was
   moved behind a named one: its entries then follow a heading and regrouping merges them into that block) *)
DupHead(st) == st.grpBy # "" /\ ~HeadingsDistinct(st.items, st.grpBy)
CanonicalGrouping(st) == st.grpBy = "" \/ Struct(GroupItems(st.items, st.grpBy)) = Struct(st.items)
SameSettings(a, b) == a.plat = b.plat /\ a.typ = b.typ /\ a.name = b.name /\ a.grpBy = b.grpBy /\ a.portNr = b.portNr /\ a.protoNr = b.protoNr

---------------------------------------------------------------------------
(* the shading report: sequence of [top, bots] keyed by the line text, as the library documents it *)
LineOf(obs, j) == SelectSeq(ObsLeaves(obs.items), LAMBDA x : x.kind = "ace")[j].line
TextOf(ln) == [k \in 1..Len(ln) |-> ln[k].s]

---------------------------------------------------------------------------
(* per action *)
ToTree(items) == [k \in 1..Len(items) |->
                    [blk |-> IsBlock(items[k]), seq |-> items[k].seq, sig |-> <<items[k].kind, items[k].id>>,
                     items |-> [j \in 1..Len(items[k].items) |-> [blk |-> FALSE, seq |-> items[k].items[j].seq,
                                                                   sig |-> <<items[k].items[j].kind, items[k].items[j].id>>, items |-> <<>>]]]]
TopSeqsDistinct(items) == \A i \in 1..Len(items) : \A j \in 1..Len(items) : i # j => items[i].seq # items[j].seq
IsPermOf(a, b) == Len(a) = Len(b) /\ \A k \in 1..Len(a) : Cardinality({i \in 1..Len(a) : a[i] = a[k]}) = Cardinality({i \in 1..Len(b) : b[i] = a[k]})
SortedBySeq(items) == \A k \in 1..(Len(items) - 1) : R!LeqL(items[k].seq, items[k + 1].seq)

(* a list that came out of acls(configuration): e.want gives, per entry in rendered order, the member lines the configuration
   defines for its source and destination group (token lists).  The state the following steps are judged from holds THESE
   members - so whatever the library attached wrongly shows up in every later prediction (tcam estimate, meaning, ...) *)
WantW(toks) == LET a == ParseAddr(toks) IN Norm(a.w)
WantMem(ms) == [k \in 1..Len(ms) |-> WantW(ms[k])]
RECURSIVE PutWanted(_, _, _)
PutWanted(leaves, want, k) ==
  IF leaves = <<>> THEN <<>>
  ELSE LET x == Head(leaves) IN
       <<IF IsAce(x) THEN [x EXCEPT !.f = [x.f EXCEPT !.src = [x.f.src EXCEPT !.mem = IF x.f.src.k = "group" THEN WantMem(want[k][1]) ELSE <<>>],
                                                       !.dst = [x.f.dst EXCEPT !.mem = IF x.f.dst.k = "group" THEN WantMem(want[k][2]) ELSE <<>>]]]
         ELSE x>> \o PutWanted(Tail(leaves), want, k + 1)
RECURSIVE WithWantedFrom(_, _, _)
WithWantedFrom(items, want, k) ==
  IF items = <<>> THEN <<>>
  ELSE LET h == Head(items)  n == IF IsBlock(h) THEN Len(h.items) ELSE 1 IN
       <<IF IsBlock(h) THEN [h EXCEPT !.items = PutWanted(h.items, want, k)] ELSE PutWanted(<<h>>, want, k)[1]>>
       \o WithWantedFrom(Tail(items), want, k + n)
WithWanted(items, want) == WithWantedFrom(items, want, 1)

ActionClauses(e) ==
  LET o == StateOf(e.obs)
      old == AllIds(pre)
  IN
  CASE e.act = "New" -> Chk(e.exc = "", e, "C17.build-failed")
                        \o (IF e.has_want THEN Chk(o.items = WithWanted(o.items, e.want), e, "C07.members-attached-by-acls-differ-from-the-configuration") ELSE <<>>)
    [] e.act = "Given" -> <<>>
    [] e.act \in {"SetPortNr", "SetProtocolNr"} ->
         Chk(e.exc = "", e, "C17.switch-raised")
         \o Compare(e, Regroup(pre, pre.items), o.items, old, "C17")
         \o Chk(o.portNr = (IF e.act = "SetPortNr" THEN e.flag ELSE pre.portNr) /\ o.protoNr = (IF e.act = "SetProtocolNr" THEN e.flag ELSE pre.protoNr)
                /\ o.plat = pre.plat /\ o.name = pre.name /\ o.grpBy = pre.grpBy, e, "C17.settings")
         \o Chk(o.id = pre.id /\ o.note = pre.note, e, "C16.acl-identifier-or-note-changed")
    [] e.act = "SetType" ->       \* acl.type = "standard" | "extended"
         LET pred == IF e.typ = "standard" /\ pre.typ = "extended" THEN ToStandardItems(pre.items) ELSE pre.items
             refused == \/ (e.typ = "standard" /\ pre.plat = "nxos")
                        \/ (e.typ = "standard" /\ pre.typ = "extended" /\ StandardRefused(pre.items))
         IN  Chk(refused = (e.exc # ""), e, "C17.type-change-accept-or-refuse")
             \o (IF e.exc # "" \/ refused THEN Chk(o = pre, e, "C17.refused-type-change-left-the-list-half-converted") ELSE
                 Compare(e, Regroup(pre, pred), o.items, old, "C17")
                 \o Chk(o.typ = e.typ /\ o.plat = pre.plat /\ o.name = pre.name /\ o.grpBy = pre.grpBy, e, "C17.settings")
                 \o Chk(o.id = pre.id /\ o.note = pre.note, e, "C16.acl-identifier-or-note-changed"))
    [] e.act = "SetPlatform" ->
         LET split == IF e.plat = "nxos" THEN UngroupPortsItems(pre.items) ELSE pre.items
             pred  == IF e.plat = "nxos" THEN Regroup(pre, split) ELSE split
             unsafe == UnsafeSplitIn(pre.items)
             refusedStd == e.plat = "nxos" /\ pre.typ = "standard"         \* NX-OS has no standard lists: refused, nothing changes
         IN  IF refusedStd THEN Chk(e.exc # "", e, "C02.standard-list-accepted-on-nxos")
                                \o Chk(o = pre, e, "C02.refused-conversion-left-the-list-half-converted")
             ELSE
             Chk(e.exc = "", e, "C02.conversion-raised")
             \o (IF e.exc # "" THEN <<>> ELSE
                 Compare(e, pred, o.items, old, "C02")
                 \o Chk(o.plat = e.plat /\ o.name = pre.name /\ o.grpBy = pre.grpBy /\ o.portNr = pre.portNr /\ o.protoNr = pre.protoNr, e, "C02.settings")
                 \o Chk(o.id = pre.id /\ o.note = pre.note, e, "C16.acl-identifier-or-note-changed")
                 \o Chk(~(e.plat = "nxos" /\ unsafe), e, "C19.multi-port-neq-split-changes-meaning"))
    [] e.act = "UngroupPorts" ->
         LET pred == Regroup(pre, UngroupPortsItems(pre.items))
             unsafe == UnsafeSplitIn(pre.items)
         IN  Chk(e.exc = "", e, "C19.split-raised")
             \o Compare(e, pred, o.items, old, "C19")
             \o Chk(SameSettings(o, pre), e, "C19.settings")
             \o Chk(~unsafe, e, "C19.multi-port-neq-split-changes-meaning")
    [] e.act = "Resequence" ->
         IF ~R!NoEmptyBlock(ToTree(pre.items)) THEN <<>>          \* a group without entries is outside the domain
         ELSE
         LET p == R!ResequenceF(ToTree(pre.items), e.s, e.d) IN
         Chk(p.ok = (e.exc = ""), e, "C10.accept-or-refuse")
         \o Chk(Means(o.items) = Means(pre.items) /\ Struct(o.items) = Struct(pre.items) /\ Notes(o.items) = Notes(pre.items)
                /\ Ids(o.items) = Ids(pre.items) /\ BlockIds(o.items) = BlockIds(pre.items) /\ SameSettings(o, pre), e, "C10.something-else-changed")
         \o (IF p.ok /\ e.exc = "" THEN Chk(ToTree(o.items) = p.tree, e, "C10.numbers") \o Chk(e.ret_num = p.ret, e, "C10.returned-last-number") ELSE <<>>)
         (* C15: after an accepted renumbering with a positive step the top-level numbers are distinct and ascending,
            so sorting any permutation of the items restores this order *)
         \o (IF p.ok /\ e.exc = "" /\ e.s # <<0, 0>> /\ e.d # <<0, 0>>
             THEN Chk(TopSeqsDistinct(o.items) /\ SortedBySeq(o.items)
                      /\ \A k \in 1..(Len(Seqs(o.items)) - 1) : R!LtL(Seqs(o.items)[k], Seqs(o.items)[k + 1]),       \* also inside the blocks
                      e, "C15.renumbered-items-would-not-sort-back-into-this-order")
             ELSE <<>>)
    [] e.act = "Group" ->
         Chk(e.exc = "", e, "C15.group-raised")
         \o Compare(e, IF e.prefix = "" THEN pre.items ELSE GroupItems(pre.items, e.prefix), o.items, old, "C15")
         \o Chk(o.grpBy = (IF e.prefix = "" THEN pre.grpBy ELSE e.prefix), e, "C15.settings")
         \o Chk(HeadingsDistinct(pre.items, e.prefix) => (Means(o.items) = Means(pre.items) /\ Ids(o.items) = Ids(pre.items)), e, "C15.grouping-lost-or-reordered-an-entry")
         \o Chk(e.prefix = "" \/ HeadingsDistinct(pre.items, e.prefix) \/ Len(Fl(o.items)) = Len(Fl(pre.items)), e, "C15.duplicate-heading-remark-dropped-by-regrouping")
    [] e.act = "Ungroup" ->
         Chk(e.exc = "", e, "C15.ungroup-raised")
         \o Compare(e, Fl(pre.items), o.items, old, "C15") \o Chk(o.grpBy = "", e, "C15.settings")
    [] e.act = "Sort" ->
         Chk(e.exc = "", e, "C15.sort-raised")
         \o Chk(IsPermOf(o.items, pre.items), e, "C15.sort-lost-duplicated-or-split-an-entry")
         \o (IF TopSeqsDistinct(pre.items) THEN Chk(SortedBySeq(o.items), e, "C15.sort-order") ELSE <<>>)
    [] e.act = "Reverse" ->
         Chk(o.items = [k \in 1..Len(pre.items) |-> pre.items[Len(pre.items) + 1 - k]], e, "C15.reverse")
    [] e.act = "Permute" ->     \* items assigned in the order e.perm (1-based positions of the old list)
         Chk(e.exc = "", e, "C15.permute-raised")
         \o Compare(e, Regroup(pre, [k \in 1..Len(e.perm) |-> pre.items[e.perm[k]]]), o.items, old, "C15")
    [] e.act = "Pop" ->
         IF e.idx \in 1..Len(pre.items)
         THEN Chk(e.exc = "", e, "C17.pop-raised") \o Chk(o.items = [k \in 1..(Len(pre.items) - 1) |-> IF k < e.idx THEN pre.items[k] ELSE pre.items[k + 1]], e, "C17.pop")
         ELSE Chk(e.exc = "IndexError" /\ o.items = pre.items, e, "C17.pop-out-of-range")
    [] e.act \in {"Append", "Insert"} ->
         LET n == Len(pre.items)
             at == IF e.act = "Append" THEN n + 1 ELSE (IF e.idx > n + 1 THEN n + 1 ELSE e.idx)
         IN  Chk(e.exc = "", e, "C17.insert-raised")
             \o Chk(Len(o.items) = n + 1 /\ (\A k \in 1..(n + 1) : k # at => o.items[k] = pre.items[IF k < at THEN k ELSE k - 1]), e, "C17.insert-moved-other-items")
             \o Chk(Len(o.items) = n + 1 => (o.items[at].kind \in {"ace", "remark"} /\ o.items[at].id \notin old), e, "C17.insert-item")
    [] e.act = "TcamCount" ->
         Chk(e.exc = "", e, "C15.tcam-raised") \o Chk(e.ret_int = Tcam(pre.items), e, "C15.tcam-estimate")
         \o Chk(o = pre, e, "C17.query-changed-object")
    [] e.act = "DeleteNote" ->
         Chk(Means(o.items) = Means(pre.items) /\ Ids(o.items) = Ids(pre.items) /\ Seqs(o.items) = Seqs(pre.items) /\ Struct(o.items) = Struct(pre.items), e, "C17.delete-note-changed-entries")
         \o Chk(\A k \in 1..Len(Notes(o.items)) : Notes(o.items)[k] = "", e, "C17.delete-note")
    [] e.act \in {"Copy", "DataRoundTrip", "Reparse"} ->      \* result is in e.twin; the source must not change
         LET tw == StateOf(e.twin) IN
         Chk(e.exc = "", e, "C16.copy-raised")
         \o (IF e.exc # "" THEN <<>> ELSE
             Chk(o = pre, e, "C16.copy-changed-source")
             \o Chk(Means(tw.items) = Means(pre.items) /\ Seqs(tw.items) = Seqs(pre.items) /\ SameSettings(tw, pre)
                    /\ (e.act = "Reparse" \/ ~CanonicalGrouping(pre) \/ Struct(tw.items) = Struct(pre.items)), e,
                    IF DupHead(pre) THEN "C15.duplicate-heading-remark-dropped-by-regrouping"
                    ELSE IF e.act = "Reparse" THEN "C06.text-of-a-live-list-does-not-parse-back-to-itself" ELSE "C16.copy-not-equal")
             \o Chk(e.act = "Reparse" \/ Struct(tw.items) # Struct(pre.items) \/ BlockSeqs(tw.items) = BlockSeqs(pre.items), e, "C16.copy-block-number-differs")
             \o Chk(e.twin_text_equal /\ (e.act = "Reparse" \/ ~CanonicalGrouping(pre) \/ e.twin_data_equal), e,
                    IF DupHead(pre) THEN "C15.duplicate-heading-remark-dropped-by-regrouping"
                    ELSE IF e.act = "Reparse" THEN "C06.text-of-a-live-list-does-not-parse-back-to-itself" ELSE "C16.copy-text-or-data-differs")
             \o (IF e.act = "Reparse" THEN <<>> ELSE
                 Chk(Notes(tw.items) = Notes(pre.items) /\ tw.note = pre.note, e,
                     IF DupHead(pre) THEN "C15.duplicate-heading-remark-dropped-by-regrouping" ELSE "C16.copy-lost-note")
                 \o Chk(e.act = "DataRoundTrip" \/ (AllIds(tw) \cap AllIds(pre)) \subseteq {""}, e, "C16.copy-shares-identifiers")
                 \o Chk(e.shared_mutables = 0, e, "C16.copy-shares-mutable-state")))
    [] e.act = "TwinOp" ->        \* an operation applied to the twin: the source must stay as it is
         Chk(o = pre, e, "C16.mutating-the-copy-changed-the-source")
    [] e.act = "EditMembers" ->     \* members of a named group edited in place: no line changes; nothing but member lists may differ
         Chk(e.exc = "", e, "C17.edit-raised")
         \o Chk(Struct(o.items) = Struct(pre.items) /\ Seqs(o.items) = Seqs(pre.items) /\ Ids(o.items) = Ids(pre.items) /\ Notes(o.items) = Notes(pre.items)
                /\ Len(Fl(o.items)) = Len(Fl(pre.items))
                /\ \A k \in 1..Len(Fl(pre.items)) :
                      LET a == Fl(pre.items)[k]  b == Fl(o.items)[k]
                          nomem(f) == [f EXCEPT !.src = [f.src EXCEPT !.mem = <<>>], !.dst = [f.dst EXCEPT !.mem = <<>>]]
                      IN  b.kind = a.kind /\ b.text = a.text /\ nomem(b.f) = nomem(a.f), e, "C17.member-edit-changed-something-else")
    [] e.act = "EditEntry" ->       \* an entry edited in place through its own API: no prediction for an accepted edit (the consistency
                                    \* clauses and the following steps judge the result); a text the address grammar refuses must raise
                                    \* and leave the list exactly as it was - renderable, with every entry as before
         IF e.refuse
         THEN IF Len(Aces(pre.items)) = 0 THEN <<>>
              ELSE Chk(e.exc # "", e, "C17.invalid-address-accepted-by-an-edit")
                   \o Chk(~e.unrender /\ o = pre, e, "C17.refused-edit-left-the-entry-half-updated")
         ELSE Chk(e.exc = "", e, "C17.edit-raised")
    [] e.act \in {"Shading", "ShadowOf", "DeleteShadow"} -> <<>>      \* handled by ShadowClauses
    [] OTHER -> Fail(e, "machinery.unknown-action")

(* positions of `a` that are missing in `b`, matching b greedily from the left as a subsequence of a
   (compared through key); {0} when b is not a subsequence of a *)
RECURSIVE RemovedFrom(_, _, _, _, _)
RemovedFrom(a, b, key(_), i, j) ==
  IF j > Len(b) THEN i..Len(a)
  ELSE IF i > Len(a) THEN {0}
  ELSE IF key(a[i]) = key(b[j]) THEN RemovedFrom(a, b, key, i + 1, j + 1)
       ELSE {i} \cup RemovedFrom(a, b, key, i + 1, j)
RemovedPositions(a, b, key(_)) == RemovedFrom(a, b, key, 1, 1)

(* --- shading / delete_shadow ------------------------------------------------------------------- *)
SkipSet(e) == {e.skip[k] : k \in 1..Len(e.skip)}
GroupFree(items) == \A k \in 1..Len(Aces(items)) : ~HasGroup(Ent(Aces(items)[k]))
NonEmptyPortsAll(items) == \A k \in 1..Len(Aces(items)) : ~PortEmpty(Aces(items)[k].f.sp) /\ ~PortEmpty(Aces(items)[k].f.dp)
(* the report as a set of <<top position, bottom position>> when lines are distinct *)
PredPairs(items, skip) == {<<FirstTop(Aces(items), j, skip), j>> : j \in ShadowedIdx(Aces(items), skip)}
ShadowClauses(e) ==
  IF e.act \notin {"Shading", "ShadowOf", "DeleteShadow"} THEN <<>>
  ELSE
  LET o == StateOf(e.obs)
      as == Aces(pre.items)
      exactDomain == GroupFree(pre.items) /\ NonEmptyPortsAll(pre.items) /\ e.lines_distinct
      pairs == {<<e.pairs[k][1], e.pairs[k][2]>> : k \in 1..Len(e.pairs)}       \* positions, resolved by text by the harness
  IN
     Chk(e.exc = "", e, "C11.report-raised")
  \o (IF e.exc # "" THEN <<>> ELSE
      (* soundness of everything reported (C04 relies on it) *)
      Chk(\A pr \in pairs : pr[1] < pr[2] /\ as[pr[1]].f.act = as[pr[2]].f.act /\ ShadowSym(Ent(as[pr[2]]), Ent(as[pr[1]])), e,
          IF e.act = "DeleteShadow" THEN "C04.reported-entry-not-covered-by-an-earlier-entry-of-the-same-action" ELSE "C11.reported-entry-not-shadowed")
      \o (IF exactDomain THEN Chk(pairs = PredPairs(pre.items, SkipSet(e)), e, "C11.report-differs-from-first-top-attribution") ELSE <<>>)
      \o (IF e.act # "DeleteShadow" THEN Chk(o = pre, e, "C17.query-changed-object")
          ELSE LET key(x) == [kind |-> x.kind, f |-> x.f, text |-> x.text, seq |-> x.seq, note |-> x.note]
                   pl == Fl(pre.items)
                   ol == Fl(o.items)
                   gone == RemovedPositions(pl, ol, key)        \* positions of pre leaves missing afterwards (greedy match), or {0} if not a subsequence
                   acePos(k) == Cardinality({m \in 1..k : IsAce(pl[m])})
               IN  (IF pairs = {} THEN Chk(o = pre, e, "C04.nothing-to-remove-but-object-changed")
                    ELSE Chk(0 \notin gone, e, "C04.result-is-not-the-original-list-with-entries-removed")
                         \o (IF 0 \in gone THEN <<>> ELSE
                             Chk(\A k \in gone : IsAce(pl[k]), e, "C04.removed-a-remark")
                             \o Chk(\A k \in gone : IsAce(pl[k]) =>
                                       \E m \in 1..(k - 1) : IsAce(pl[m]) /\ pl[m].f.act = pl[k].f.act /\ ShadowSym(Ent(pl[k]), Ent(pl[m])),
                                    e, "C04.removed-entry-not-covered-by-an-earlier-entry-of-the-same-action")
                             \o Chk({pr[2] : pr \in pairs} \subseteq {acePos(k) : k \in gone}, e, "C04.reported-entry-not-removed")
                             \o Chk(Struct(o.items) = Struct(Regroup(pre, ol)), e, "C04.grouping-touched")))
                   \o Chk(e.same_as_shading_before, e, "C04.report-differs-from-shading-just-before")
                   \o Chk(e.expect_empty => pairs = {}, e, "C04.second-removal-found-something")
                   \o Chk(SameSettings(o, pre), e, "C04.settings")))

Report(cs) == IF cs = <<>> THEN TRUE ELSE PrintT(ToJson([verdicts |-> cs]))
Init == l = 1 /\ pre = Blank /\ twin = Blank
Next == /\ l <= Len(TraceLog)
        /\ LET e == TraceLog[l] IN
             /\ Report(IF GivenOk(e) THEN ConsistencyClauses(e) \o ActionClauses(e) \o ShadowClauses(e) ELSE <<>>)
             /\ pre' = IF e.act = "New" /\ e.has_want THEN [StateOf(e.obs) EXCEPT !.items = WithWanted(StateOf(e.obs).items, e.want)] ELSE StateOf(e.obs)
             /\ twin' = IF e.act \in {"Copy", "DataRoundTrip", "Reparse", "TwinOp"} THEN StateOf(e.twin) ELSE twin
        /\ l' = l + 1
Spec == Init /\ [][Next]_vars
Post_ == PrintT(ToJson([consumed |-> TLCGet("stats").diameter - 1, total |-> Len(TraceLog)]))
=============================================================================
