------------------------------ MODULE Trace_C10 ------------------------------
(* Histories of resequence() calls on real Acl / AceGroup / AddrGroup      *)
(* objects, judged with limb arithmetic (base 65536, Max = 4294967295).    *)
EXTENDS Reseq, Json, IOUtils, TLC

MaxSeqReal == <<65535, 65535>>
TraceLog == ndJsonDeserialize(IOEnv.TRACE_FILE)
VARIABLES l, pre
Fail(e, c) == <<[tid |-> e.tid, i |-> e.i, clause |-> c]>>
Chk(cond, e, c) == IF cond THEN <<>> ELSE Fail(e, c)

(* the harness logs, per entry, the number attribute (seq) and the number read from the text (lseq) *)
RECURSIVE Strip(_)
Strip(t) == [i \in 1..Len(t) |-> [blk |-> t[i].blk, seq |-> t[i].seq, sig |-> t[i].sig, items |-> Strip(t[i].items)]]
RECURSIVE TextAgrees(_)
TextAgrees(t) == \A i \in 1..Len(t) : IF t[i].blk THEN TextAgrees(t[i].items) ELSE t[i].lseq = t[i].seq

Clauses(e) ==
  CASE e.act = "Given" -> <<>>        \* the state of an object somebody else built (recorded executions): nothing claimed
    [] e.act = "New" -> Chk(e.exc = "", e, "C10.build-failed") \o Chk(e.exc # "" \/ TextAgrees(e.obs), e, "C10.text-number-differs-from-attribute")
    [] e.act = "Resequence" ->
         IF ~NoEmptyBlock(pre) THEN <<>>       \* outside the domain (non-empty groups)
         ELSE
         LET p == ResequenceF(pre, e.s, e.d) IN
         Chk(p.ok = (e.exc = ""), e, IF p.ok THEN "C10.valid-call-raised" ELSE "C10.invalid-call-returned")
         \o Chk(e.exc \in {"", "ValueError"}, e, "C10.exception-class")
         \o Chk(Sigs(Strip(e.obs)) = Sigs(pre), e, "C10.something-else-changed")
         \o Chk(TextAgrees(e.obs), e, "C10.text-number-differs-from-attribute")
         \o (IF e.exc = "" THEN Chk(InRange(Strip(e.obs)), e, "C10.number-above-max-after-normal-return") ELSE <<>>)
         \o (IF p.ok /\ e.exc = ""
             THEN Chk(Strip(e.obs) = p.tree, e, "C10.numbers") \o Chk(e.ret = p.ret, e, "C10.returned-last-number")
             ELSE <<>>)
    [] OTHER -> Fail(e, "machinery.unknown-action")

Report(cs) == IF cs = <<>> THEN TRUE ELSE PrintT(ToJson([verdicts |-> cs]))
Init == l = 1 /\ pre = <<>>
Next == /\ l <= Len(TraceLog)
        /\ Report(Clauses(TraceLog[l]))
        /\ pre' = Strip(TraceLog[l].obs)
        /\ l' = l + 1
Spec == Init /\ [][Next]_<<l, pre>>
Post_ == PrintT(ToJson([consumed |-> TLCGet("stats").diameter - 1, total |-> Len(TraceLog)]))
=============================================================================
