CONSTANT W = 32
CONSTANT PMax = 65535
SPECIFICATION Spec
POSTCONDITION Post_
CHECK_DEADLOCK FALSE
