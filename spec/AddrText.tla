------------------------------ MODULE AddrText ------------------------------
(***************************************************************************)
(* Reading and writing address expressions as sequences of typed tokens.   *)
(* A token is a record [t, s, b, n, h]:                                    *)
(*   t = "ip"  : dotted quad, b = its W bits                               *)
(*   t = "pfx" : A.B.C.D/n , b = bits, n = length as written               *)
(*   t = "n"   : decimal number, value = h * 65536 + n                     *)
(*   t = "w"   : any other word, s = the word                              *)
(* (TLC has no characters; the harness' lexer only classifies by shape.)   *)
(*                                                                         *)
(* Two grammars:                                                           *)
(*   ACE addresses        any | host A | A W | A/len | object-group N |    *)
(*                        addrgroup N | A (standard ACL host)              *)
(*   address-group members (object-group network / ip address bodies)      *)
(*     ios : [seq] host A | A NETMASK | A/len | group-object N             *)
(*     nxos: [seq] host A | A W | A/len | any                              *)
(* The result is an AddrSpec:                                              *)
(*   [k |-> "wild", w |-> Wild, name |-> ""]                               *)
(*   [k |-> "group", w |-> ZeroW, name |-> N]   (members attached later)   *)
(*   [k |-> "bad",  ...]                                                   *)
(***************************************************************************)
EXTENDS AddrSem

ZeroW == [base |-> Zeros(W), mask |-> Zeros(W)]
AnyW  == [base |-> Zeros(W), mask |-> Ones(W)]
Bad   == [k |-> "bad", w |-> ZeroW, name |-> ""]
WildSpec(w) == [k |-> "wild", w |-> Norm(w), name |-> ""]
GroupSpec(n) == [k |-> "group", w |-> ZeroW, name |-> n]

IsW(tk, word) == tk.t = "w" /\ tk.s = word
LenMask(n) == [i \in 1..W |-> IF i > n THEN 1 ELSE 0]      \* wildcard mask of a prefix length
NetMaskOf(m) == BNot(m)

(* ACE address (any platform: the library accepts every spelling on both)  *)
ParseAddr(toks) ==
  CASE Len(toks) = 1 /\ IsW(toks[1], "any") -> WildSpec(AnyW)
    [] Len(toks) = 2 /\ IsW(toks[1], "host") /\ toks[2].t = "ip" -> WildSpec([base |-> toks[2].b, mask |-> Zeros(W)])
    [] Len(toks) = 2 /\ toks[1].t = "ip" /\ toks[2].t = "ip" -> WildSpec([base |-> toks[1].b, mask |-> toks[2].b])
    [] Len(toks) = 1 /\ toks[1].t = "pfx" ->
         IF toks[1].n <= W THEN WildSpec([base |-> toks[1].b, mask |-> LenMask(toks[1].n)]) ELSE Bad
    [] Len(toks) = 1 /\ toks[1].t = "ip" -> WildSpec([base |-> toks[1].b, mask |-> Zeros(W)])
    [] Len(toks) = 2 /\ (IsW(toks[1], "object-group") \/ IsW(toks[1], "addrgroup")) /\ toks[2].t \in {"w", "n"} -> GroupSpec(toks[2].s)
    [] OTHER -> Bad

(* how many tokens an ACE address takes at the head of a token sequence (0 = none) *)
AddrWidth(toks) ==
  CASE Len(toks) >= 1 /\ IsW(toks[1], "any") -> 1
    [] Len(toks) >= 2 /\ IsW(toks[1], "host") /\ toks[2].t = "ip" -> 2
    [] Len(toks) >= 2 /\ (IsW(toks[1], "object-group") \/ IsW(toks[1], "addrgroup")) -> 2
    [] Len(toks) >= 1 /\ toks[1].t = "pfx" -> 1
    [] Len(toks) >= 2 /\ toks[1].t = "ip" /\ toks[2].t = "ip" -> 2
    [] OTHER -> 0

StripSeq(toks) == IF Len(toks) >= 2 /\ toks[1].t = "n" THEN Tail(toks) ELSE toks
SeqOf(toks) == IF Len(toks) >= 2 /\ toks[1].t = "n" THEN <<toks[1].h, toks[1].n>> ELSE <<0, 0>>

(* address-group member *)
ParseMember(plat, toks0) ==
  LET toks == StripSeq(toks0) IN
  CASE Len(toks) = 2 /\ IsW(toks[1], "host") /\ toks[2].t = "ip" -> WildSpec([base |-> toks[2].b, mask |-> Zeros(W)])
    [] Len(toks) = 1 /\ toks[1].t = "pfx" ->
         IF toks[1].n <= W THEN WildSpec([base |-> toks[1].b, mask |-> LenMask(toks[1].n)]) ELSE Bad
    [] Len(toks) = 2 /\ toks[1].t = "ip" /\ toks[2].t = "ip" ->
         IF plat = "nxos"
         THEN WildSpec([base |-> toks[1].b, mask |-> toks[2].b])                  \* wildcard bits
         ELSE IF IsNetMask(toks[2].b) /\ BAnd(toks[1].b, BNot(toks[2].b)) = Zeros(W) /\ toks[2].b # Zeros(W)
              THEN WildSpec([base |-> toks[1].b, mask |-> BNot(toks[2].b)])       \* subnet + net mask
              ELSE IF toks[2].b = Zeros(W) /\ toks[1].b # Zeros(W)
                   THEN WildSpec([base |-> toks[1].b, mask |-> Ones(W)])          \* "A 0.0.0.0": mask 0 = /0 in the library
                   ELSE Bad
    [] Len(toks) = 1 /\ IsW(toks[1], "any") -> IF plat = "nxos" THEN WildSpec(AnyW) ELSE Bad
    [] Len(toks) = 2 /\ IsW(toks[1], "group-object") /\ plat = "ios" -> GroupSpec(toks[2].s)
    [] OTHER -> Bad

---------------------------------------------------------------------------
(* Canonical renderings ("native text") as token SHAPES: sequences of      *)
(* [t, s, b, n] with h omitted; used to judge rendered lines.              *)
Tk(t, s, b, n) == [t |-> t, s |-> s, b |-> b, n |-> n]
SameTok(obs, want) == obs.t = want.t /\ (want.t = "w" => obs.s = want.s)
                      /\ (want.t \in {"ip", "pfx"} => obs.b = want.b)
                      /\ (want.t = "pfx" => obs.n = want.n)
SameToks(obs, want) == Len(obs) = Len(want) /\ \A i \in 1..Len(want) : SameTok(obs[i], want[i])

IsHostW(w) == w.mask = Zeros(W)
IsAnyW(w) == w.mask = Ones(W)

(* canonical ACE address text for a platform *)
RenderAddr(plat, a) ==
  IF a.k = "group" THEN <<Tk("w", IF plat = "nxos" THEN "addrgroup" ELSE "object-group", <<>>, 0), Tk("w", a.name, <<>>, 0)>>
  ELSE IF IsAnyW(a.w) THEN <<Tk("w", "any", <<>>, 0)>>
  ELSE IF plat = "ios"
       THEN IF IsHostW(a.w) THEN <<Tk("w", "host", <<>>, 0), Tk("ip", "", a.w.base, 0)>>
            ELSE <<Tk("ip", "", a.w.base, 0), Tk("ip", "", a.w.mask, 0)>>
       ELSE IF IsContig(a.w.mask) THEN <<Tk("pfx", "", a.w.base, W - LowRun(a.w.mask))>>
            ELSE <<Tk("ip", "", a.w.base, 0), Tk("ip", "", a.w.mask, 0)>>
=============================================================================
