---------------------------- MODULE WildcardObj ----------------------------
(***************************************************************************)
(* The Wildcard object of the library as a state machine (property C05).   *)
(*                                                                         *)
(* State of one object:                                                    *)
(*   w      the (normalised) wildcard the object currently shows as .line  *)
(*   limit  max number of non-contiguous wildcard bits (max_ncwb, 0..30)   *)
(*   hasMemo, memo   the memoised answer of ipnets(): the implementation   *)
(*          memoises that query, so the memo is part of the design and     *)
(*          "no stale result" is an invariant over histories.              *)
(*                                                                         *)
(* Every public operation is a function  state x args -> [st, ret, ok]     *)
(* so that the model-checking module (actions over a variable) and the     *)
(* trace module (prediction vs observation) share one definition.          *)
(***************************************************************************)
EXTENDS AddrSem

MaxLimit == 30
NoRet == {}

TooManyNc(w, limit) == Cardinality(NcIdx(w.mask)) > limit

(* Wildcard(line, max_ncwb=limit)                                          *)
NewF(w, limit) ==
  IF TooManyNc(w, limit)
  THEN [ok |-> FALSE, st |-> [w |-> Norm(w), limit |-> limit, hasMemo |-> FALSE, memo |-> {}], ret |-> NoRet]
  ELSE [ok |-> TRUE,  st |-> [w |-> Norm(w), limit |-> limit, hasMemo |-> FALSE, memo |-> {}], ret |-> NoRet]

(* obj.line = ...   : rejected (object unchanged) or every derived value   *)
(* afterwards describes the new line, so the memo is dropped.              *)
SetLineF(st, w) ==
  IF TooManyNc(w, st.limit)
  THEN [ok |-> FALSE, st |-> st, ret |-> NoRet]
  ELSE [ok |-> TRUE,  st |-> [st EXCEPT !.w = Norm(w), !.hasMemo = FALSE, !.memo = {}], ret |-> NoRet]

(* obj.max_ncwb = lim : only the limit changes; it is enforced the next    *)
(* time a line is set (the current line is not re-validated).             *)
SetLimitF(st, lim) ==
  IF lim \in 0..MaxLimit
  THEN [ok |-> TRUE,  st |-> [st EXCEPT !.limit = lim], ret |-> NoRet]
  ELSE [ok |-> FALSE, st |-> st, ret |-> NoRet]

(* The behaviour C05 forbids (a memo that outlives a line change); kept as *)
(* a named deviation so that MC can show NoStale is not vacuous.           *)
SetLineKeepMemoF(st, w) ==
  IF TooManyNc(w, st.limit)
  THEN [ok |-> FALSE, st |-> st, ret |-> NoRet]
  ELSE [ok |-> TRUE,  st |-> [st EXCEPT !.w = Norm(w)], ret |-> NoRet]

(* obj.ipnets()                                                            *)
QueryIpnetsF(st) ==
  IF st.hasMemo
  THEN [ok |-> TRUE, st |-> st, ret |-> st.memo]
  ELSE LET ps == PrefixDecomp(st.w)
       IN  [ok |-> TRUE, st |-> [st EXCEPT !.hasMemo = TRUE, !.memo = ps], ret |-> ps]

(* obj.ipnet : the single network, or none                                 *)
QueryIpnetF(st) ==
  [ok |-> TRUE, st |-> st,
   ret |-> IF IsContig(st.w.mask) THEN {PfxOfWild(st.w)} ELSE {}]

(* obj.line / .prefix / .wildmask                                          *)
QueryLineF(st) == [ok |-> TRUE, st |-> st, ret |-> {st.w}]

---------------------------------------------------------------------------
(* Properties of a state / of a step                                       *)

TypeOKSt(st) == /\ st.w \in Wild /\ IsNorm(st.w)
                /\ st.limit \in 0..MaxLimit
                /\ st.hasMemo \in BOOLEAN

(* C05 "nothing stale": a memoised answer describes the current line.      *)
NoStaleSt(st) == st.hasMemo => st.memo = PrefixDecomp(st.w)
=============================================================================
