------------------------------ MODULE Outcome ------------------------------
(***************************************************************************)
(* Outcome alphabet of the constructors and config-level functions on      *)
(* arbitrary text (property C20): a call returns, or raises a value / type *)
(* error (their subclasses included); nothing else, and never without end. *)
(* Whatever is returned renders text that the same constructor accepts.    *)
(***************************************************************************)
EXTENDS Naturals, Sequences
Documented == {"ok", "ValueError", "TypeError"}
Classes == {"Ace", "Remark", "AceGroup", "Acl", "Address", "AddressAg", "AddrGroup", "Port", "Protocol", "Option", "Wildcard",
            "acls", "aces", "addrgroups"}
(* one call and the re-construction from the rendered text *)
CallOK(outcome) == outcome \in Documented
ReparseOK(outcome, re) == outcome = "ok" => re = "ok"
=============================================================================
