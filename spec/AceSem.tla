------------------------------- MODULE AceSem -------------------------------
(***************************************************************************)
(* What an ACE matches (packet semantics), what an ACL decides (first      *)
(* match), and the shadow relation in three forms:                         *)
(*   ShadowExact  same action and packet-set containment, by enumeration   *)
(*                (ground truth; small instance only)                      *)
(*   ShadowSym    the same, decided field by field with the symbolic       *)
(*                operators (usable at full size)                          *)
(*   ShadowLib    the relation the library documents: like ShadowSym but   *)
(*                an address group is covered only network by network, and *)
(*                skip options force "not shadowed"                        *)
(* An entry is an ACE (record of AceText.ParseAce) plus the member         *)
(* wildcards of the address groups it names: [a, smem, dmem].              *)
(***************************************************************************)
EXTENDS AceText

TcpFlags == {"ack", "fin", "psh", "rst", "syn", "urg"}

Entry(a, smem, dmem) == [a |-> a, smem |-> smem, dmem |-> dmem]
SrcWilds(e) == IF e.a.src.k = "group" THEN {e.smem[i] : i \in 1..Len(e.smem)} ELSE {e.a.src.w}
DstWilds(e) == IF e.a.dst.k = "group" THEN {e.dmem[i] : i \in 1..Len(e.dmem)} ELSE {e.a.dst.w}

---------------------------------------------------------------------------
(* packets: sp / dp = 0 means "no port (or port 0)"; fl = set of TCP flags set *)
Packet(protos, flagsets) == [proto : protos, sa : Addr, sp : 0..PMax, da : Addr, dp : 0..PMax, fl : flagsets]

PortMatches(pe, p) == pe.op = "" \/ (p >= 1 /\ p \in PDen(pe.op, pe.items))
FlagsMatch(fs, fl) == fs = <<>> \/ \E k \in 1..Len(fs) : fs[k] \in fl
Matches(e, pkt) ==
  /\ e.a.proto = 0 \/ e.a.proto = pkt.proto
  /\ \E w \in SrcWilds(e) : MatchesW(w, pkt.sa)
  /\ \E w \in DstWilds(e) : MatchesW(w, pkt.da)
  /\ PortMatches(e.a.sp, pkt.sp)
  /\ PortMatches(e.a.dp, pkt.dp)
  /\ FlagsMatch(e.a.flags, pkt.fl)
  (* a port expression or a TCP flag only ever matches a packet of a protocol that has them *)
  /\ (e.a.sp.op # "" \/ e.a.dp.op # "") => pkt.proto \in {6, 17}

(* first match over a flat list of entries *)
RECURSIVE Decision(_, _)
Decision(es, pkt) == IF es = <<>> THEN "implicit-deny"
                     ELSE IF Matches(Head(es), pkt) THEN Head(es).a.act ELSE Decision(Tail(es), pkt)

---------------------------------------------------------------------------
(* field-wise cover tests, symbolic *)
PfxSetOf(ws) == UNION {PrefixDecomp(w) : w \in ws}
AddrCoverExact(bws, tws) == \A p \in PfxSetOf(bws) : PfxCovered(p, PfxSetOf(tws))
AddrCoverLib(bws, tws) == Cover(PfxSetOf(tws), PfxSetOf(bws))

PortCover(b, t) ==      \* every port the bottom accepts is accepted by the top
  IF t.op = "" THEN TRUE
  ELSE IF b.op = "" THEN FALSE
       ELSE IvSubset(PIv(b.op, b.items), PIv(t.op, t.items))
PortEmpty(pe) == pe.op # "" /\ PIv(pe.op, pe.items) = <<>>

FlagCover(b, t) == t = <<>> \/ (b # <<>> /\ \A k \in 1..Len(b) : \E j \in 1..Len(t) : t[j] = b[k])

ProtoCover(b, t) == t = 0 \/ t = b

(* the bottom matches no packet at all (then it is covered by anything of the same action) *)
MatchesNothing(e) == \/ PortEmpty(e.a.sp) \/ PortEmpty(e.a.dp)
                     \/ SrcWilds(e) = {} \/ DstWilds(e) = {}

ShadowSym(b, t) ==
  /\ b.a.act = t.a.act
  /\ \/ MatchesNothing(b)
     \/ /\ ProtoCover(b.a.proto, t.a.proto)
        /\ AddrCoverExact(SrcWilds(b), SrcWilds(t))
        /\ AddrCoverExact(DstWilds(b), DstWilds(t))
        /\ PortCover(b.a.sp, t.a.sp)
        /\ PortCover(b.a.dp, t.a.dp)
        /\ FlagCover(b.a.flags, t.a.flags)

(* skip options *)
IsNcWild(a) == a.k = "wild" /\ ~IsContig(a.w.mask)
SkipHit(b, t, skip) ==
  \/ "addrgroup" \in skip /\ (b.a.src.k = "group" \/ t.a.src.k = "group" \/ b.a.dst.k = "group" \/ t.a.dst.k = "group")
  \/ "nc_wildcard" \in skip /\ (IsNcWild(b.a.src) \/ IsNcWild(t.a.src) \/ IsNcWild(b.a.dst) \/ IsNcWild(t.a.dst))

(* what the library documents *)
ShadowLib(b, t, skip) ==
  /\ b.a.act = t.a.act
  /\ ~SkipHit(b, t, skip)
  /\ ProtoCover(b.a.proto, t.a.proto)
  /\ AddrCoverLib(SrcWilds(b), SrcWilds(t))
  /\ AddrCoverLib(DstWilds(b), DstWilds(t))
  /\ PortCover(b.a.sp, t.a.sp) /\ ~PortEmpty(t.a.sp) /\ (t.a.sp.op # "" => ~PortEmpty(b.a.sp))
  /\ PortCover(b.a.dp, t.a.dp) /\ ~PortEmpty(t.a.dp) /\ (t.a.dp.op # "" => ~PortEmpty(b.a.dp))
  /\ FlagCover(b.a.flags, t.a.flags)

HasGroup(e) == e.a.src.k = "group" \/ e.a.dst.k = "group"
=============================================================================
