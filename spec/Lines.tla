------------------------------- MODULE Lines -------------------------------
(***************************************************************************)
(* Building an ACL / ACE group / address group from text: what happens to  *)
(* each body line (property C12).  A line is of one of the kinds           *)
(*   "valid"     it is an entry of the grammar -> an item, in line order   *)
(*   "ignorable" statistics ... / description ... / ignore ...  -> skipped *)
(*   "fatal"     an entry whose wildcard needs more non-contiguous bits    *)
(*               than the limit: the whole construction fails (ACL / ACE   *)
(*               group; documented, re-raised on purpose)                  *)
(*   "invalid"   anything else -> no item, but a log record names the line *)
(* Outcome of a construction from a sequence of kinds.                     *)
(***************************************************************************)
EXTENDS Naturals, Sequences

Kinds == {"valid", "ignorable", "fatal", "invalid"}
Count(ks, k) == Len(SelectSeq(ks, LAMBDA x : x = k))

(* Acl(line=...), AceGroup(line=...) *)
BuildAcl(ks) == IF Count(ks, "fatal") > 0 THEN [ok |-> FALSE, items |-> 0, reported |-> 0]
                ELSE [ok |-> TRUE, items |-> Count(ks, "valid"), reported |-> Count(ks, "invalid")]
(* AddrGroup(line=...): no fatal kind (an over-limit member is an invalid member); fails when no member remains *)
BuildGroup(ks) == IF Count(ks, "valid") = 0 THEN [ok |-> FALSE, items |-> 0, reported |-> 0]
                  ELSE [ok |-> TRUE, items |-> Count(ks, "valid"), reported |-> Count(ks, "invalid") + Count(ks, "fatal")]

(* the accounting identity *)
Accounted(ks, r) == ~r.ok \/ r.items + r.reported + Count(ks, "ignorable") = Len(ks)
=============================================================================
