------------------------------- MODULE Reseq -------------------------------
(***************************************************************************)
(* Sequence numbers and resequencing (property C10).                       *)
(*                                                                         *)
(* Numbers are limb pairs <<hi, lo>> with value hi * B + lo, 0 <= lo < B,  *)
(* hi any integer (so negative values and values above 2^32 exist although *)
(* TLC integers are 32 bit).  B = 65536 for real, small when model         *)
(* checking; MC_Reseq ties the limb arithmetic to plain integers.          *)
(*                                                                         *)
(* An item list ("tree") is a sequence of entries                          *)
(*   leaf  [blk |-> FALSE, seq, sig, items |-> <<>>]                       *)
(*   block [blk |-> TRUE,  seq, sig, items |-> <<leaf, ...>>]              *)
(* sig is everything the harness sees of an entry except its number.       *)
(***************************************************************************)
EXTENDS Integers, Sequences

CONSTANTS B,        \* limb base
          MaxSeq    \* largest sequence number, as a limb pair (<<65535, 65535>> = 4294967295)

Zero == <<0, 0>>
Nrm(hi, lo) == <<hi + (lo \div B), lo % B>>
AddL(a, b) == Nrm(a[1] + b[1], a[2] + b[2])
LeqL(a, b) == a[1] < b[1] \/ (a[1] = b[1] /\ a[2] <= b[2])
LtL(a, b) == LeqL(a, b) /\ a # b
IsZero(a) == a = Zero
ToInt(a) == a[1] * B + a[2]                       \* small values only
OfInt(n) == <<n \div B, n % B>>

Leaf(seq, sig) == [blk |-> FALSE, seq |-> seq, sig |-> sig, items |-> <<>>]

(* a tree is a sequence of nodes; a block node holds a tree again (blocks may be nested to any depth) *)
RECURSIVE CountLeaves(_)
CountLeaves(t) == IF t = <<>> THEN 0
                  ELSE (IF Head(t).blk THEN CountLeaves(Head(t).items) ELSE 1) + CountLeaves(Tail(t))

(* leaves in rendered order *)
RECURSIVE Flat(_)
Flat(t) == IF t = <<>> THEN <<>>
           ELSE (IF Head(t).blk THEN Flat(Head(t).items) ELSE <<Head(t)>>) \o Flat(Tail(t))

(* everything but the numbers *)
RECURSIVE Sigs(_)
Sigs(t) == [i \in 1..Len(t) |-> [blk |-> t[i].blk, sig |-> t[i].sig, items |-> Sigs(t[i].items)]]

(* number a tree: leaves get cur, cur+d, ... in rendered order; a block's own number is its last leaf's;
   returns the numbered tree and the NEXT number *)
RECURSIVE NumTree(_, _, _)
NumTree(t, cur, d) ==
  IF t = <<>> THEN [out |-> <<>>, next |-> cur]
  ELSE LET h == Head(t) IN
       IF h.blk
       THEN LET inner == NumTree(h.items, cur, d)
                fl    == Flat(inner.out)
                last  == fl[Len(fl)].seq
                r     == NumTree(Tail(t), inner.next, d)
            IN  [out |-> <<[h EXCEPT !.items = inner.out, !.seq = last]>> \o r.out, next |-> r.next]
       ELSE LET r == NumTree(Tail(t), AddL(cur, d), d)
            IN  [out |-> <<[h EXCEPT !.seq = cur]>> \o r.out, next |-> r.next]

LastNumber(t) == LET f == Flat(t) IN IF f = <<>> THEN Zero ELSE f[Len(f)].seq

(* obj.resequence(start, step) on an item list without empty blocks *)
ArgsBad(s, d) == \/ ~(LeqL(Zero, s) /\ LeqL(s, MaxSeq))
                 \/ (~IsZero(s) /\ ~LeqL(<<0, 1>>, d))
ResequenceF(t, s, d) ==
  IF ArgsBad(s, d) THEN [ok |-> FALSE, tree |-> t, ret |-> Zero]
  ELSE LET step == IF IsZero(s) THEN Zero ELSE d
           r    == NumTree(t, s, step)
           last == IF t = <<>> THEN s ELSE LastNumber(r.out)
       IN  IF LeqL(last, MaxSeq) THEN [ok |-> TRUE, tree |-> r.out, ret |-> last]
           ELSE [ok |-> FALSE, tree |-> t, ret |-> Zero]

---------------------------------------------------------------------------
(* C10 as stated: a direct characterisation, independent of the recursion  *)
RECURSIVE MulL(_, _)
MulL(d, k) == IF k = 0 THEN Zero ELSE AddL(d, MulL(d, k - 1))
(* every block (at any depth) carries the number of its last leaf *)
RECURSIVE BlocksCarryLast(_)
BlocksCarryLast(t) == \A i \in 1..Len(t) : t[i].blk => (t[i].seq = Flat(t[i].items)[Len(Flat(t[i].items))].seq /\ BlocksCarryLast(t[i].items))
RECURSIVE BlocksCleared(_)
BlocksCleared(t) == \A i \in 1..Len(t) : t[i].blk => (t[i].seq = Zero /\ BlocksCleared(t[i].items))
RECURSIVE BlocksInRange(_)
BlocksInRange(t) == \A i \in 1..Len(t) : t[i].blk => (LeqL(t[i].seq, MaxSeq) /\ BlocksInRange(t[i].items))
NumberedFrom(t, s, d) ==
  LET f == Flat(t) IN
  /\ \A k \in 1..Len(f) : f[k].seq = AddL(s, MulL(d, k - 1))
  /\ BlocksCarryLast(t)
AllCleared(t) == /\ \A k \in 1..Len(Flat(t)) : Flat(t)[k].seq = Zero
                 /\ BlocksCleared(t)
InRange(t) == /\ \A k \in 1..Len(Flat(t)) : LeqL(Zero, Flat(t)[k].seq) /\ LeqL(Flat(t)[k].seq, MaxSeq)
              /\ BlocksInRange(t)
RECURSIVE NoEmptyBlock(_)
NoEmptyBlock(t) == \A i \in 1..Len(t) : t[i].blk => (Flat(t[i].items) # <<>> /\ NoEmptyBlock(t[i].items))
=============================================================================
