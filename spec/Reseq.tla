------------------------------- MODULE Reseq -------------------------------
(***************************************************************************)
(* Sequence numbers and resequencing (property C10).                       *)
(*                                                                         *)
(* Numbers are limb pairs <<hi, lo>> with value hi * B + lo, 0 <= lo < B,  *)
(* hi any integer (so negative values and values above 2^32 exist although *)
(* TLC integers are 32 bit).  B = 65536 for real, small when model         *)
(* checking; MC_Reseq ties the limb arithmetic to plain integers.          *)
(*                                                                         *)
(* An item list ("tree") is a sequence of entries                          *)
(*   leaf  [blk |-> FALSE, seq, sig, items |-> <<>>]                       *)
(*   block [blk |-> TRUE,  seq, sig, items |-> <<leaf, ...>>]              *)
(* sig is everything the harness sees of an entry except its number.       *)
(***************************************************************************)
EXTENDS Integers, Sequences

CONSTANTS B,        \* limb base
          MaxSeq    \* largest sequence number, as a limb pair (<<65535, 65535>> = 4294967295)

Zero == <<0, 0>>
Nrm(hi, lo) == <<hi + (lo \div B), lo % B>>
AddL(a, b) == Nrm(a[1] + b[1], a[2] + b[2])
LeqL(a, b) == a[1] < b[1] \/ (a[1] = b[1] /\ a[2] <= b[2])
LtL(a, b) == LeqL(a, b) /\ a # b
IsZero(a) == a = Zero
ToInt(a) == a[1] * B + a[2]                       \* small values only
OfInt(n) == <<n \div B, n % B>>

Leaf(seq, sig) == [blk |-> FALSE, seq |-> seq, sig |-> sig, items |-> <<>>]

RECURSIVE CountLeaves(_)
CountLeaves(t) == IF t = <<>> THEN 0
                  ELSE (IF Head(t).blk THEN Len(Head(t).items) ELSE 1) + CountLeaves(Tail(t))

(* leaves in rendered order *)
RECURSIVE Flat(_)
Flat(t) == IF t = <<>> THEN <<>>
           ELSE (IF Head(t).blk THEN Head(t).items ELSE <<Head(t)>>) \o Flat(Tail(t))

Sigs(t) == [i \in 1..Len(t) |-> [blk |-> t[i].blk, sig |-> t[i].sig,
                                  items |-> [j \in 1..Len(t[i].items) |-> t[i].items[j].sig]]]

(* number a flat list of leaves: cur, cur+d, ... ; returns the list and the NEXT number *)
RECURSIVE NumLeaves(_, _, _)
NumLeaves(ls, cur, d) ==
  IF ls = <<>> THEN [out |-> <<>>, next |-> cur]
  ELSE LET r == NumLeaves(Tail(ls), AddL(cur, d), d)
       IN  [out |-> <<[Head(ls) EXCEPT !.seq = cur]>> \o r.out, next |-> r.next]

(* number a tree; a block's own number is its last leaf's *)
RECURSIVE NumTree(_, _, _)
NumTree(t, cur, d) ==
  IF t = <<>> THEN [out |-> <<>>, next |-> cur]
  ELSE LET h == Head(t) IN
       IF h.blk
       THEN LET inner == NumLeaves(h.items, cur, d)
                last  == inner.out[Len(inner.out)].seq
                r     == NumTree(Tail(t), inner.next, d)
            IN  [out |-> <<[h EXCEPT !.items = inner.out, !.seq = last]>> \o r.out, next |-> r.next]
       ELSE LET r == NumTree(Tail(t), AddL(cur, d), d)
            IN  [out |-> <<[h EXCEPT !.seq = cur]>> \o r.out, next |-> r.next]

LastNumber(t) == LET f == Flat(t) IN IF f = <<>> THEN Zero ELSE f[Len(f)].seq

(* obj.resequence(start, step) on an item list without empty blocks *)
ArgsBad(s, d) == \/ ~(LeqL(Zero, s) /\ LeqL(s, MaxSeq))
                 \/ (~IsZero(s) /\ ~LeqL(<<0, 1>>, d))
ResequenceF(t, s, d) ==
  IF ArgsBad(s, d) THEN [ok |-> FALSE, tree |-> t, ret |-> Zero]
  ELSE LET step == IF IsZero(s) THEN Zero ELSE d
           r    == NumTree(t, s, step)
           last == IF t = <<>> THEN s ELSE LastNumber(r.out)
       IN  IF LeqL(last, MaxSeq) THEN [ok |-> TRUE, tree |-> r.out, ret |-> last]
           ELSE [ok |-> FALSE, tree |-> t, ret |-> Zero]

---------------------------------------------------------------------------
(* C10 as stated: a direct characterisation, independent of the recursion  *)
RECURSIVE MulL(_, _)
MulL(d, k) == IF k = 0 THEN Zero ELSE AddL(d, MulL(d, k - 1))
NumberedFrom(t, s, d) ==
  LET f == Flat(t) IN
  /\ \A k \in 1..Len(f) : f[k].seq = AddL(s, MulL(d, k - 1))
  /\ \A i \in 1..Len(t) : t[i].blk => t[i].seq = t[i].items[Len(t[i].items)].seq
AllCleared(t) == /\ \A k \in 1..Len(Flat(t)) : Flat(t)[k].seq = Zero
                 /\ \A i \in 1..Len(t) : t[i].seq = Zero
InRange(t) == /\ \A k \in 1..Len(Flat(t)) : LeqL(Zero, Flat(t)[k].seq) /\ LeqL(Flat(t)[k].seq, MaxSeq)
              /\ \A i \in 1..Len(t) : LeqL(t[i].seq, MaxSeq)
NoEmptyBlock(t) == \A i \in 1..Len(t) : t[i].blk => t[i].items # <<>>
=============================================================================
