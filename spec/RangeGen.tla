------------------------------ MODULE RangeGen ------------------------------
(***************************************************************************)
(* Generated ACE lines for a requested list of ports / port ranges or of   *)
(* protocols (property C18).                                               *)
(*                                                                         *)
(* A request is a sequence of items <<lo, hi>> (a single port is           *)
(* <<p, p>> with single = TRUE): [lo, hi, single].                         *)
(* The template is a parsed ACE (AceText.ParseAce); `side` is "src"/"dst". *)
(* The postcondition is stated on the parsed output lines.                 *)
(***************************************************************************)
EXTENDS AceText

ReqIvs(req) == [k \in 1..Len(req) |-> <<req[k].lo, req[k].hi>>]
ReqSet(req) == Canon(ReqIvs(req))                   \* the requested set, canonical intervals
HasRangeItem(req) == \E k \in 1..Len(req) : ~req[k].single

SidePort(a, side) == IF side = "src" THEN a.sp ELSE a.dp
OtherPort(a, side) == IF side = "src" THEN a.dp ELSE a.sp
(* everything of an entry except the port expression of `side` *)
Rest(a, side) == [act |-> a.act, proto |-> a.proto, src |-> AddrMeaning(a.src), dst |-> AddrMeaning(a.dst),
                  other |-> OtherPort(a, side), flags |-> a.flags, logs |-> a.logs, seq |-> a.seq, typ |-> a.typ]

(* union of the denotations of the generated side over all lines *)
RECURSIVE AllIvs(_, _)
AllIvs(lines, side) == IF lines = <<>> THEN <<>>
                       ELSE (LET pe == SidePort(Head(lines), side) IN IF pe.op = "" THEN <<>> ELSE PIv(pe.op, pe.items)) \o AllIvs(Tail(lines), side)

(* refusals *)
TemplateRefused(tpl) == \E pe \in {tpl.sp, tpl.dp} : pe.op \in {"gt", "lt", "range"}
NeedsMultiEq(req, portCount, portRange) ==
  portCount > 1 /\ (IF portRange THEN \E k \in 1..(Len(req) - 1) : req[k].single /\ req[k + 1].single
                    ELSE IvCount(ReqSet(req)) > 1 \/ Len(req) > 1)
RangeItemUnderOperator(tpl, side, req, portRange) == SidePort(tpl, side).op # "" /\ portRange /\ HasRangeItem(req)

(* postcondition for one side; lines = parsed output lines for that side *)
PostPorts(tpl, side, req, lines, portCount, portRange, op) ==
  /\ \A k \in 1..Len(lines) : lines[k].ok /\ Rest(lines[k], side) = Rest(tpl, side)
  /\ \A k \in 1..Len(lines) : LET pe == SidePort(lines[k], side) IN
        /\ pe.op \in {op, "range"}
        /\ (pe.op = op => Len(pe.items) <= (IF portCount = 0 THEN 1 ELSE portCount))
        /\ (pe.op = "range" => portRange)
  /\ (~portRange => \A k \in 1..Len(lines) : SidePort(lines[k], side).op = op)
  /\ (op = "eq" => Canon(AllIvs(lines, side)) = ReqSet(req))
=============================================================================
