------------------------------ MODULE PortObj ------------------------------
(***************************************************************************)
(* The Port object (operator, operands, denoted set, compact string, text) *)
(* with its three writable views, as a state machine (property C08).       *)
(*   st = [op, items, ports, sport]                                        *)
(*   items : operands in ascending order (the library sorts them)          *)
(*   ports : canonical interval list of the denoted set                    *)
(*   sport : the compact range string, as an interval list                 *)
(* The text of the object is  op items...  (numbers; names are C09).       *)
(***************************************************************************)
EXTENDS PortSem

Mk(op, operands) ==
  LET its == SortNat(operands)
      den == PIv(op, its)
  IN  [op |-> op, items |-> its, ports |-> den, sport |-> Encode(den)]

Empty == [op |-> "", items |-> <<>>, ports |-> <<>>, sport |-> <<>>]

(* Port("<op> <operands>")                                                 *)
NewF(op, operands) ==
  IF op \in Ops /\ ArityOK(op, operands)
  THEN [ok |-> TRUE, st |-> Mk(op, operands)]
  ELSE [ok |-> FALSE, st |-> Empty]

(* port.items = xs  : same operator, new operands                          *)
SetItemsF(st, xs) ==
  IF ArityOK(st.op, xs) THEN [ok |-> TRUE, st |-> Mk(st.op, xs)] ELSE [ok |-> FALSE, st |-> st]

(* port.line = "<op> <operands>" on a live object: the whole expression is  *)
(* replaced (operator, operands, set, string); nothing of the old one stays *)
SetLineF(st, op, xs) ==
  IF op \in Ops /\ ArityOK(op, xs) THEN [ok |-> TRUE, st |-> Mk(op, xs)] ELSE [ok |-> FALSE, st |-> st]

(* inverse of the denotation, where one exists: the operands that denote a *)
(* given canonical set under the object's operator                         *)
HasInverse(op, ivs) ==
  CASE op = "eq"    -> ivs # <<>>
    [] op = "neq"   -> Compl(ivs) # <<>>
    [] op = "lt"    -> Len(ivs) = 1 /\ ivs[1][1] = 1
    [] op = "gt"    -> Len(ivs) = 1 /\ ivs[1][2] = PMax
    [] op = "range" -> Len(ivs) = 1
    [] OTHER -> FALSE

RECURSIVE Flatten(_)
Flatten(ivs) == IF ivs = <<>> THEN <<>>
                ELSE [k \in 1..(ivs[1][2] - ivs[1][1] + 1) |-> ivs[1][1] + k - 1] \o Flatten(Tail(ivs))

Inverse(op, ivs) ==
  CASE op = "eq"    -> Flatten(ivs)
    [] op = "neq"   -> Flatten(Compl(ivs))
    [] op = "lt"    -> <<ivs[1][2] + 1>>
    [] op = "gt"    -> <<ivs[1][1] - 1>>
    [] op = "range" -> <<ivs[1][1], ivs[1][2]>>

(* port.ports = P  /  port.sport = S  with P, S given as interval lists    *)
SetPortsF(st, ivs) ==
  LET c == Canon(ivs) IN
  IF HasInverse(st.op, c) THEN [ok |-> TRUE, st |-> Mk(st.op, Inverse(st.op, c))] ELSE [ok |-> FALSE, st |-> st]

(* the three self-assignments of C08 *)
WriteBackItemsF(st) == SetItemsF(st, st.items)
WriteBackPortsF(st) == SetPortsF(st, st.ports)
WriteBackSportF(st) == SetPortsF(st, Decode(st.sport))

---------------------------------------------------------------------------
ViewsAgree(st) == /\ st.ports = PIv(st.op, st.items)
                  /\ IsCanon(st.ports)
                  /\ st.sport = Encode(st.ports)
                  /\ Decode(st.sport) = st.ports
=============================================================================
