------------------------------- MODULE Config -------------------------------
(***************************************************************************)
(* A device configuration as a sequence of sections, and what the          *)
(* config-level functions must extract from it (property C07).             *)
(*                                                                         *)
(* Section (uniform shape) [kind, name, typ, body, binds]:                 *)
(*   kind "acl"   : name, typ ("extended" | "standard"), body = lines      *)
(*        "group" : name, body = member lines                              *)
(*        "intf"  : name (the whole interface line), binds = sequence of   *)
(*                  <<acl name, "in" | "out">> (ip access-group lines)      *)
(*        "noise" : anything else (name = its first line)                  *)
(* Lines are opaque values here (token sequences in the trace instance).   *)
(***************************************************************************)
EXTENDS Naturals, Sequences, FiniteSets

SeqToSet(s) == {s[i] : i \in 1..Len(s)}
AclSecs(cfg) == SelectSeq(cfg, LAMBDA s : s.kind = "acl")
GroupSecs(cfg, n) == SelectSeq(cfg, LAMBDA s : s.kind = "group" /\ s.name = n)

(* interfaces that apply ACL `n` in direction `dir` *)
Bound(cfg, n, dir) == {cfg[i].name : i \in {j \in 1..Len(cfg) : cfg[j].kind = "intf" /\ <<n, dir>> \in SeqToSet(cfg[j].binds)}}

(* the member lines an ACE address naming group `g` gets: those of the one section defining g, else none *)
MembersFor(cfg, g) == IF Len(GroupSecs(cfg, g)) = 1 THEN GroupSecs(cfg, g)[1].body ELSE <<>>

(* what acls(config, names=filter) returns, as a sequence of records in configuration order *)
Wanted(cfg, filter) == SelectSeq(AclSecs(cfg), LAMBDA s : filter = {"*"} \/ s.name \in filter)
Extract(cfg, filter) ==
  LET w == Wanted(cfg, filter) IN
  [k \in 1..Len(w) |-> [name |-> w[k].name, typ |-> w[k].typ, body |-> w[k].body,
                        inp |-> Bound(cfg, w[k].name, "in"), out |-> Bound(cfg, w[k].name, "out")]]

NamesDistinct(cfg) == \A i \in 1..Len(cfg) : \A j \in 1..Len(cfg) :
                         (i # j /\ cfg[i].kind = cfg[j].kind /\ cfg[i].kind \in {"acl", "intf"}) => cfg[i].name # cfg[j].name
=============================================================================
