------------------------------- MODULE Config -------------------------------
(***************************************************************************)
(* A device configuration as a sequence of sections, and what the          *)
(* config-level functions must extract from it (property C07).             *)
(*                                                                         *)
(* Section (uniform shape) [kind, name, typ, body, binds]:                 *)
(*   kind "acl"   : name, typ ("extended" | "standard"), body = lines      *)
(*        "group" : name, body = member lines                              *)
(*        "intf"  : name (the whole interface line), binds = sequence of   *)
(*                  <<acl name, "in" | "out">> (ip access-group lines)      *)
(*        "noise" : anything else (name = its first line)                  *)
(* Lines are opaque values here (token sequences in the trace instance).   *)
(***************************************************************************)
EXTENDS Naturals, Sequences, FiniteSets

(* A member line may reference another group (IOS "group-object NAME"):    *)
(* RefOf(line) is that name, "" for an ordinary member.  Supplied by the   *)
(* instance (token test in the trace instance, a table in the MC one).     *)
CONSTANT RefOf(_)

SeqToSet(s) == {s[i] : i \in 1..Len(s)}
AclSecs(cfg) == SelectSeq(cfg, LAMBDA s : s.kind = "acl")
GroupSecs(cfg, n) == SelectSeq(cfg, LAMBDA s : s.kind = "group" /\ s.name = n)

(* interfaces that apply ACL `n` in direction `dir` *)
Bound(cfg, n, dir) == {cfg[i].name : i \in {j \in 1..Len(cfg) : cfg[j].kind = "intf" /\ <<n, dir>> \in SeqToSet(cfg[j].binds)}}

(* the member lines an ACE address naming group `g` gets: those of the one section defining g, else none; a member
   that references another group stands for that group's members (recursively; an undefined or doubly defined
   group, or one already being expanded, stands for nothing) - the result is a flat list of ordinary members *)
RECURSIVE FlatMembers(_, _, _)
FlatMembers(cfg, g, seen) ==
  IF g \in seen \/ Len(GroupSecs(cfg, g)) # 1 THEN <<>>
  ELSE LET body == GroupSecs(cfg, g)[1].body
           RECURSIVE Go(_)
           Go(k) == IF k > Len(body) THEN <<>>
                    ELSE (IF RefOf(body[k]) = "" THEN <<body[k]>> ELSE FlatMembers(cfg, RefOf(body[k]), seen \cup {g})) \o Go(k + 1)
       IN  Go(1)
MembersFor(cfg, g) == FlatMembers(cfg, g, {})

(* what acls(config, names=filter) returns, as a sequence of records in configuration order *)
Wanted(cfg, filter) == SelectSeq(AclSecs(cfg), LAMBDA s : filter = {"*"} \/ s.name \in filter)
Extract(cfg, filter) ==
  LET w == Wanted(cfg, filter) IN
  [k \in 1..Len(w) |-> [name |-> w[k].name, typ |-> w[k].typ, body |-> w[k].body,
                        inp |-> Bound(cfg, w[k].name, "in"), out |-> Bound(cfg, w[k].name, "out")]]

NamesDistinct(cfg) == \A i \in 1..Len(cfg) : \A j \in 1..Len(cfg) :
                         (i # j /\ cfg[i].kind = cfg[j].kind /\ cfg[i].kind \in {"acl", "intf"}) => cfg[i].name # cfg[j].name
=============================================================================
