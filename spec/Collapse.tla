------------------------------ MODULE Collapse ------------------------------
(***************************************************************************)
(* Collapsing a list of networks (property C14).                           *)
(*                                                                         *)
(* (a) Post(in, out): what a collapse must guarantee - same covered set,   *)
(*     never more elements, sorted.                                        *)
(* (b) The work-list algorithm of the library, one StepF per loop          *)
(*     iteration: pop the LAST element; drop it if another remaining       *)
(*     element covers it; if it and its sibling are both present push      *)
(*     their supernet at the FRONT (unless already there); else emit it.   *)
(*     MC_Collapse checks termination and Post for every input list of the *)
(*     small instance; the trace module requires the real result to equal  *)
(*     CollapseF(input) exactly.                                           *)
(***************************************************************************)
EXTENDS AddrSem, TLC

SeqSet(s) == {s[i] : i \in 1..Len(s)}

Supernet(p) == IF p.len = 0 THEN p
               ELSE [bits |-> [p.bits EXCEPT ![p.len] = 0], len |-> p.len - 1]
Halves(p) == IF p.len = W THEN {p}            \* (never used for hosts' children)
             ELSE {[bits |-> p.bits, len |-> p.len + 1],
                   [bits |-> [p.bits EXCEPT ![p.len + 1] = 1], len |-> p.len + 1]}

StepF(s) ==
  LET n    == Len(s.work)
      cur  == s.work[n]
      rest == SubSeq(s.work, 1, n - 1)
      sup  == Supernet(cur)
  IN  IF \E o \in SeqSet(rest) : SubP(cur, o)
      THEN [work |-> rest, out |-> s.out]
      ELSE IF Halves(sup) \subseteq (SeqSet(rest) \cup {cur})
           THEN [work |-> IF sup \in SeqSet(rest) THEN rest ELSE <<sup>> \o rest, out |-> s.out]
           ELSE [work |-> rest, out |-> Append(s.out, cur)]

RECURSIVE Run(_)
Run(s) == IF s.work = <<>> THEN s.out ELSE Run(StepF(s))

PfxLe(p, q) == p = q \/ PfxLt(p, q)
SortPfx(s) == SortSeq(s, PfxLt)
CollapseF(input) == SortPfx(Run([work |-> input, out |-> <<>>]))

IsSorted(s) == \A i \in 1..(Len(s) - 1) : PfxLe(s[i], s[i + 1])

(* the guarantee, symbolic (usable at W = 32) *)
Post(input, out) == /\ SameUnion(SeqSet(input), SeqSet(out))
                    /\ Len(out) <= Len(input)
                    /\ IsSorted(out)
(* the guarantee, enumerative (ground truth at small W) *)
PostEnum(input, out) == /\ UnionPfx(SeqSet(input)) = UnionPfx(SeqSet(out))
                        /\ Len(out) <= Len(input)
                        /\ IsSorted(out)
=============================================================================
