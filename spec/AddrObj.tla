------------------------------ MODULE AddrObj ------------------------------
(***************************************************************************)
(* Address objects and the relations between them (properties C13, C14).   *)
(* An operand is  [k, w, name, members]  : k = "wild" (one wildcard) or    *)
(* k = "group" (union of the member wildcards; members is a sequence).     *)
(***************************************************************************)
EXTENDS AddrText

Operand(spec, members) == [k |-> spec.k, w |-> spec.w, name |-> spec.name, members |-> members]

MemberSet(a) == {a.members[i] : i \in 1..Len(a.members)}
WildsOf(a) == IF a.k = "wild" THEN {a.w} ELSE MemberSet(a)
NetsOf(a) == UNION {PrefixDecomp(w) : w \in WildsOf(a)}
HasSingleNet(a) == a.k = "wild" /\ IsContig(a.w.mask)

(* ground truth (small W) *)
AddrSet(a) == UnionMembers(WildsOf(a))

(* what the library computes: every network of the bottom inside one network of the top *)
SubnetOfLib(b, t) == Cover(NetsOf(t), NetsOf(b))

(* exact containment, symbolic *)
Contained(b, t) == \A p \in NetsOf(b) : PfxCovered(p, NetsOf(t))

(* C13 verdict for  bottom.subnet_of(top) = ret *)
SubnetOfOK(b, t, ret) ==
  IF b.k = "wild" /\ t.k = "wild"
  THEN ret = SubW(b.w, t.w)
  ELSE ret => (NetsOf(b) # {} /\ Contained(b, t))

(* member `a in b` (both address-group members) *)
InMemberRefusable(a, b) == ~HasSingleNet(a) \/ ~HasSingleNet(b)
InMemberOK(a, b, ret) == ret = SubW(a.w, b.w)

(* member `a in G` *)
InGroupRefusable(a, g) == ~HasSingleNet(a) \/ \E m \in MemberSet(g) : ~IsContig(m.mask)
InGroupOK(a, g, ret) == ret = (\E m \in MemberSet(g) : SubW(a.w, m))
=============================================================================
