#!/bin/sh
# tools/verify_mutant.sh <dir with patch.diff demo.py>  : confirm a seeded change in a scratch worktree of /repo HEAD
V=$(cd "$(dirname "$0")/.." && pwd)
d=$1; wt=/tmp/wt/verify_$$
git -C /repo worktree add -q --detach $wt HEAD || exit 3
cd $wt
PYTHONPATH=$wt /venv/bin/python $d/demo.py >/dev/null 2>&1; clean=$?
if git apply $d/patch.diff 2>/dev/null || patch -p1 -s --fuzz=3 < $d/patch.diff; then
  PYTHONPATH=$wt /venv/bin/python $d/demo.py >/dev/null 2>&1; mut=$?
  tests=$(/venv/bin/python -m pytest -q -p no:cacheprovider tests 2>&1 | tail -1)
else mut="NOAPPLY"; tests="-"; fi
cd /; git -C /repo worktree remove --force $wt
echo "demo_clean_rc=$clean demo_mutant_rc=$mut tests: $tests"
