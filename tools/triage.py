import json, glob, sys, collections
prop = sys.argv[1]
groups = collections.OrderedDict()
for p in sorted(glob.glob(f'/verif/replays/{prop}_*.json')):
    r = json.load(open(p))
    key = (r['clause'], (r.get('features') or {}).get('act'))
    groups.setdefault(key, []).append((p, r))
for (clause, act), lst in groups.items():
    n = sum(r['occurrences'] for _, r in lst)
    p, r = lst[0]
    print(f"=== {clause}  act={act}  files={len(lst)} occ={n}  e.g. {p.split('/')[-1]} feats={r['features']}")
    if len(sys.argv) > 2:
        c = r['case']
        print("   seed:", c.get('plat'), 'group_by=', repr(c.get('group_by')), 'port_nr', c.get('port_nr'), 'proto_nr', c.get('protocol_nr'), 'groups', c.get('groups'))
        for ev in (r.get('events') or [])[-2:]:
            print("   ev", ev.get('i'), ev.get('act'), ev.get('exc'))
            for ln in ev.get('lines', []): print("        ", ln)
        print("   ops:", [ (o['act'], {k:v for k,v in o.items() if k!='act'}) for o in c.get('ops', [])][:12])
