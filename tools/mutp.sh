#!/bin/sh
# tools/mutp.sh <seeded-id> <Cxx> [tier] : run a check against a scratch worktree of /repo HEAD with the seeded patch applied
# (parallel-safe: /repo itself is not touched; evidence and replays of the run go to a scratch directory)
V=$(cd "$(dirname "$0")/.." && pwd)
id=$1; prop=$2; tier=${3:-quick}; d=$V/seeded/$id; wt=/tmp/wt_mutp_$$_$id; sc=/tmp/mutp_out_$$_$id
mkdir -p $sc
git -C /repo worktree add -q --detach $wt HEAD || exit 3
( cd $wt && (git apply $d/patch.diff 2>/dev/null || patch -p1 -s --fuzz=3 < $d/patch.diff) ) || { echo "$id PATCH-DOES-NOT-APPLY"; git -C /repo worktree remove --force $wt; exit 4; }
PYTHONPATH=$wt /venv/bin/python $d/demo.py >/dev/null 2>&1; demo=$?
out=$(cd $V && VERIF_REPO=$wt VERIF_EVIDENCE_DIR=$sc VERIF_REPLAY_DIR=$sc ./check $prop --tier $tier 2>&1); rc=$?
git -C /repo worktree remove --force $wt; rm -rf $sc
echo "== $id ($prop) demo_rc=$demo check_rc=$rc"; echo "$out" | grep -E "^(VIOLATION|MACHINERY)" | cut -c1-200 | head -4; echo "$out" | tail -1
