#!/bin/sh
# tools/seed_one.sh <seeded-id> : confirm one seeded change (demo + full test-suite in a scratch worktree), run its owning quick check, write meta.json
V=$(cd "$(dirname "$0")/.." && pwd)
cd $V
id=$1; prop=${id%%-*}
  conf=$(tools/verify_mutant.sh $V/seeded/$id 2>&1 | tail -1)
  det=$(tools/mutp.sh $id $prop quick 2>&1)
  rc=$(echo "$det" | sed -n 's/.*check_rc=\([0-9]*\).*/\1/p' | head -1)
  clauses=$(echo "$det" | grep '^VIOLATION' | sed 's/.*clause=\([^ ]*\).*/\1/' | sort -u | tr '\n' ' ')
  echo "$id: $conf | check_rc=$rc | $clauses"
  /venv/bin/python - "$id" "$prop" "$conf" "$rc" "$clauses" <<'PY'
import json, sys
id_, prop, conf, rc, clauses = sys.argv[1:6]
d = f"seeded/{id_}"     # cwd is the verification tree
readme = open(d + "/README.md").read() if __import__("os").path.exists(d + "/README.md") else ""
json.dump(dict(id=id_, property=prop, needs_to_manifest=readme.strip()[:2000], confirmed=conf,
               ran=["tools/verify_mutant.sh: scratch worktree of /repo HEAD; demo.py on the clean tree (expect 0), with patch.diff applied (expect 1); full test-suite with the patch (expect 327 passed, 1 known failure)",
                    f"tools/mutp.sh {id_} {prop} quick: ./check {prop} --tier quick with VERIF_REPO pointing at a scratch worktree with the patch applied"],
               detected_by_quick=(rc == "1"), check_exit_code=rc, clauses_reported=clauses.split()), open(d + "/meta.json", "w"), indent=1)
PY
