import json, glob, collections, sys
prop=sys.argv[1]; nshow=int(sys.argv[2]) if len(sys.argv)>2 else 1
groups = collections.OrderedDict()
for p in sorted(glob.glob(f'/verif/replays/{prop}_*.json')):
    r = json.load(open(p))
    groups.setdefault((r['clause'], r['features'].get('act')), []).append((p, r))
for (clause, act), lst in groups.items():
    n = sum(r['occurrences'] for _, r in lst)
    print(f"=== {clause} act={act} files={len(lst)} occ={n}")
    for p, r in lst[:nshow]:
        c = r['case']
        print("   ", p.split('/')[-1], c.get('plat'), 'ver', c.get('ver'), 'group_by=', repr(c.get('group_by')), 'notes', c.get('notes'), 'port_nr', c.get('port_nr'), 'proto_nr', c.get('protocol_nr'), 'groups', c.get('groups'))
        evs = (r.get('events') or [])
        for ev in evs[-2:]:
            print("      ev", ev.get('i'), ev.get('act'), ev.get('exc'))
            for ln in ev.get('lines', [])[:14]: print("           ", ln)
        print("      ops:", [ (o['act'], {k:v for k,v in o.items() if k!='act'}) for o in c.get('ops', [])][:evs[-1].get('i',0)] if evs else None)
