#!/bin/sh
# tools/final_a.sh : C17 thorough, then the confirmation of the seeded changes of rounds 1 and 2 (run through `vp run`)
V=$(cd "$(dirname "$0")/.." && pwd); cd $V
tools/thorough.sh C17
tools/seed_all.sh 3 '-m[12]$\|r2m'
