#!/bin/sh
# tools/seed_all.sh [parallelism] : tools/seed_one.sh for every directory under seeded/
V=$(cd "$(dirname "$0")/.." && pwd)
cd $V
ls seeded | xargs -P ${1:-3} -I{} tools/seed_one.sh {}
