#!/bin/sh
# tools/seed_all.sh [parallelism] [pattern] : tools/seed_one.sh for every directory under seeded/ (whose name matches pattern)
V=$(cd "$(dirname "$0")/.." && pwd)
cd $V
ls seeded | grep -e "${2:-.}" | xargs -P ${1:-3} -I{} tools/seed_one.sh {}
