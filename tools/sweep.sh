#!/bin/sh
# tools/sweep.sh <tier> <seed>... : run every claimed check for the given seeds, print one line per run
tier=$1; shift
for seed in "$@"; do
  for p in C01 C02 C03 C04 C05 C06 C07 C08 C09 C10 C11 C12 C13 C14 C15 C16 C17 C18 C19 C20; do
    t0=$(date +%s)
    out=$(VERIF_SEED=$seed ./check $p --tier $tier 2>&1); rc=$?
    echo "seed=$seed $p rc=$rc $(( $(date +%s) - t0 ))s $(echo "$out" | grep -c '^VIOLATION') violations | $(echo "$out" | tail -1 | cut -c1-120)"
    echo "$out" | grep -E "^(VIOLATION|MACHINERY)" | cut -c1-220 | head -5
  done
done
