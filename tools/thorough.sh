#!/bin/sh
# tools/thorough.sh <Cxx>... : run the thorough tier of the given checks one after the other, one line per run
V=$(cd "$(dirname "$0")/.." && pwd); cd $V
for p in "$@"; do
  t0=$(date +%s)
  out=$(./check $p --tier thorough 2>&1); rc=$?
  echo "thorough $p rc=$rc $(( $(date +%s) - t0 ))s | $(echo "$out" | tail -1 | cut -c1-140)"
  echo "$out" | grep -E "^(VIOLATION|MACHINERY|KNOWN)" | cut -c1-220 | head -6
done
