#!/bin/sh
# tools/mut.sh <patch.diff> <Cxx> [tier]   apply a seeded change to /repo, run the check, undo it.
patch=$1; prop=$2; tier=${3:-quick}
[ -n "$(git -C /repo status --porcelain --untracked-files=no)" ] && { echo "/repo not clean"; exit 3; }
if ! git -C /repo apply "$patch" 2>/dev/null; then
  (cd /repo && patch -p1 -s --fuzz=3 < "$patch") || { echo "PATCH-DOES-NOT-APPLY"; git -C /repo checkout -- .; exit 4; }
fi
find /repo -name '*.orig' -delete 2>/dev/null
cd /verif && ./check "$prop" --tier "$tier" > /tmp/mut_out.$$ 2>&1; rc=$?
git -C /repo checkout -- .
grep -E "^(VIOLATION|KNOWN-FINDING|MACHINERY)" /tmp/mut_out.$$ | cut -c1-220 | head -8; tail -1 /tmp/mut_out.$$
rm -f /tmp/mut_out.$$
echo "mutant rc=$rc"
exit $rc
