#!/bin/sh
# tools/seed.sh <Cxx> <mk> [owner-prop]  : import a sub-agent's change, confirm it, run the owning check, write meta.json
prop=$1; mk=$2; own=${3:-$1}; src=/tmp/wt/$prop/mutants/$mk; dst=/verif/seeded/$prop-$mk
mkdir -p $dst; [ -f $dst/patch.diff ] || cp $src/patch.diff $src/demo.py $src/README.md $dst/ 2>/dev/null
conf=$(/verif/tools/verify_mutant.sh $dst)
echo "$prop-$mk confirm: $conf"
det=$(/verif/tools/mut.sh $dst/patch.diff $own quick 2>&1)
rc=$(echo "$det" | sed -n 's/^mutant rc=//p')
echo "$det" | tail -4
/venv/bin/python - "$prop" "$mk" "$own" "$conf" "$rc" "$dst" <<'PY'
import json,sys,re
prop,mk,own,conf,rc,dst=sys.argv[1:7]
readme=open(dst+"/README.md").read()
meta=dict(id=f"{prop}-{mk}", property=prop, checked_with=f"./check {own} --tier quick", 
          needs_to_manifest=readme.strip()[:1500],
          confirmed=conf, ran=["tools/verify_mutant.sh (scratch worktree of /repo HEAD: demo on clean tree, demo + full test-suite with the patch)",
                               f"tools/mut.sh patch.diff {own} quick (git -C /repo apply; ./check; git -C /repo checkout -- .)"],
          detected_by_quick=(rc=="1"), check_exit_code=rc)
json.dump(meta,open(dst+"/meta.json","w"),indent=1)
PY
